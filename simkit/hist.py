"""Call-history machine on the real ``strapdown.Integrator`` (C02) with the 2-D invariant
monitor riding on it (C13).

Reference model: the same class used in the one canonical way — a *fresh* integrator
started from the segment's initial state, given all increments of the segment in ONE
``integrate`` call with a capacity that never grows.  Model state: (segment start pva,
segment start row, rows applied).  All comparisons are bitwise.
"""
from . import env  # noqa: F401
import numpy as np
import pandas as pd

from pyins import strapdown
from pyins.util import TRAJECTORY_COLS, THETA_COLS, DV_COLS

from . import world as W
from .fworld import rng_of, _f
from .monitors import (KernelShim, KernelBoundsViolation, InitialSize, digest, bits,
                       integrator_capacity)

CHUNKS = [0, 1, 2, 3, 5, 8, 13, -1]
SIZES = [1, 2, 3, 4, 5, 7, 8, 16, 10000]


def V(cls, detail, key=None):
    return {'class': cls, 'detail': detail, 'key': key or cls}


# -------------------------------------------------------------------- generation
def _rand_pva(r, wd, near=None):
    if near is None:
        lat, lon, alt = wd['lat'], wd['lon'], wd['alt']
    else:
        lat, lon, alt = near
    vd = _f(r.uniform(-8, 8))
    if r.random() < 0.15:
        # a vertical velocity of round-off size (not zero, not ordinary)
        vd = [1e-9, -1e-9, 5e-9, -3e-12, 1e-15, -1e-7][int(r.integers(6))]
    return [_f(lat + r.uniform(-0.01, 0.01)), _f(lon + r.uniform(-0.01, 0.01)),
            _f(alt + r.uniform(-50, 50)),
            _f(r.uniform(-60, 60)), _f(r.uniform(-60, 60)), vd,
            _f(r.uniform(-40, 40)), _f(r.uniform(-40, 40)), _f(r.uniform(-180, 180))]


def generate(run_seed, force_2d=False):
    r = rng_of(run_seed)
    for _ in range(40):
        sc = _gen_once(r, force_2d)
        if sc is not None:
            sc['run_seed'] = int(run_seed)
            return sc
    raise RuntimeError("history generator could not stay inside the domain fence")


def _gen_once(r, force_2d):
    wd = W.make_world(r)
    period = [0.005, 0.01, 0.02, 0.05, 0.1][int(r.integers(5))]
    n = int(r.integers(3, 61))
    long_history = r.random() < 0.12
    if long_history:
        n = int(r.integers(120, 330))
        period = [0.005, 0.01, 0.02][int(r.integers(3))]
    origin = [0.0, 0.0, -_f(r.uniform(1, 50)), 4.0e5 + _f(r.uniform(0, 1000)),
              _f(r.uniform(0, 2000))][int(r.integers(5))]
    st = origin + period * np.arange(n + 1)
    if r.random() < 0.5:
        st[1:] += r.uniform(-0.3, 0.3, n) * period
    if r.random() < 0.2 and n > 6:
        at = int(r.integers(2, n))
        st[at:] += _f(r.uniform(0.3, 2.0))
    stamping = 'right'
    u = r.random()
    if u < 0.1:
        # increments stamped with the START of their interval: the first stamp equals the
        # time of the initial state
        stamping = 'left'
    elif u < 0.2 and n > 4:
        # a repeated IMU time stamp: one increment with dt == 0
        at = int(r.integers(1, n))
        st[at + 1:] = st[at:-1].copy()
        st[at + 1] = st[at]
        stamping = 'dup'
    elif u < 0.28:
        # integer time stamps (a nanosecond epoch counter beyond 2**53): the index must
        # carry them exactly
        stamping = 'int_ns'
    inc_cols = [None, None, None, 'reversed', 'rotated', 'extra_leading'][int(r.integers(6))]
    wa = False if force_2d else bool(r.random() < 0.5)
    size = SIZES[int(r.integers(len(SIZES)))]
    perturb = dict(seed=int(r.integers(2 ** 31)),
                   theta=_f(r.choice([0.0, 1e-4, 1e-2])),
                   dv=_f(r.choice([0.0, 1e-2, 0.5])),
                   vertical=_f(r.choice([0.0, 0.0, 5.0, -20.0])))
    if r.random() < 0.3 and n > 2:
        # an IMU whose driver fills lost samples with zeros: rows whose rotation and/or
        # velocity increment is EXACTLY zero between ordinary rows
        rows_ = sorted({int(x) for x in r.integers(0, n, size=int(r.integers(1, 4)))})
        if r.random() < 0.4 and rows_[-1] + 1 < n:
            rows_.append(rows_[-1] + 1)
        perturb['zero_rows'] = rows_
        perturb['zero_what'] = ['theta', 'dv', 'both'][int(r.integers(3))]
    init = _rand_pva(r, wd)
    n_ops = int(r.integers(3, 41))
    ops = []
    left = n
    for _ in range(n_ops):
        u = r.random()
        if u < 0.45:
            c = CHUNKS[int(r.integers(len(CHUNKS)))]
            if long_history and r.random() < 0.6:
                c = [100, 101, 128, 150, 200, -1][int(r.integers(6))]
            k = left if c < 0 else min(c, left)
            if c < 0 and r.random() < 0.5:
                k = int(r.integers(0, left + 1))
            ops.append(['integrate', int(k)])
            left -= k
        elif u < 0.65:
            if left > 0:
                if r.random() < 0.3:
                    # the feedback filter predicts over a fraction of the next increment;
                    # the fraction is exactly 0 for a measurement on an IMU epoch
                    ops.append(['predict_scaled',
                                0.0 if r.random() < 0.25 else _f(r.uniform(0.0, 1.0))])
                else:
                    ops.append(['predict'])
            else:
                ops.append(['get_pva'])
        elif u < 0.75:
            ops.append(['get_pva'])
        elif u < 0.85:
            ops.append(['get_time'])
        else:
            v = r.random()
            if v < 0.6:
                ops.append(['set_pva', _rand_pva(r, wd)])
                if r.random() < 0.35:
                    # the Series handed over carries no name / another stamp than the
                    # integrator's current time (a state from another source)
                    ops[-1].append(['none', 'first', 'other', 'int'][int(r.integers(4))])
            elif v < 0.8:
                ops.append(['fix_position', [_f(x) for x in r.uniform(-3, 3, 5)]])
            elif v < 0.9:
                ops.append(['set_pva_roundtrip'])
            elif v < 0.95:
                ops.append(['set_pva_scribble', _rand_pva(r, wd)])
            else:
                ops.append(['get_pva_scribble'])
    if left > 0 and r.random() < 0.7:
        ops.append(['integrate', int(left)])
    sc = dict(format=1, kind='history', world=wd,
              imu=dict(type=['rate', 'increment'][int(r.integers(2))],
                       stamps=[float(x) for x in st]),
              perturb=perturb, initial=init,
              knobs=dict(with_altitude=wa, initial_size=size, stamping=stamping,
                         inc_cols=inc_cols,
                         observe=bool(r.random() < 0.5)), ops=ops)
    try:
        m = materialise(sc)
        big = strapdown.Integrator(m['initial'], True).integrate(m['increments'])
    except Exception:
        return None
    if not W.in_fence(big):
        return None
    return sc


def materialise(sc):
    stamps = np.asarray(sc['imu']['stamps'], dtype=float)
    inc, _ = W.clean_increments(sc['world'], stamps, sc['imu']['type'])
    p = sc['perturb']
    g = np.random.Generator(np.random.PCG64(int(p['seed'])))
    inc = inc.copy()
    dt = inc['dt'].values[:, None]
    inc[THETA_COLS] = inc[THETA_COLS].values + p['theta'] * g.standard_normal((len(inc), 3))
    dv = inc[DV_COLS].values + p['dv'] * g.standard_normal((len(inc), 3))
    dv[:, 2] += p['vertical'] * dt[:, 0]
    inc[DV_COLS] = dv
    if p.get('zero_rows'):
        rows_ = [i for i in p['zero_rows'] if 0 <= i < len(inc)]
        if p.get('zero_what', 'both') in ('theta', 'both'):
            inc.iloc[rows_, [inc.columns.get_loc(c) for c in THETA_COLS]] = 0.0
        if p.get('zero_what', 'both') in ('dv', 'both'):
            inc.iloc[rows_, [inc.columns.get_loc(c) for c in DV_COLS]] = 0.0
    t0 = float(stamps[0])
    if sc['knobs'].get('stamping') == 'left':
        inc.index = pd.Index(stamps[:-1], name=inc.index.name)
    elif sc['knobs'].get('stamping') == 'int_ns':
        # 1.7e18 ns epoch + the sample times in whole nanoseconds
        base = 1_700_000_000_123_456_789
        ticks = base + np.round((stamps - stamps[0]) * 1e9).astype(np.int64)
        inc.index = pd.Index(ticks[1:], dtype=np.int64, name=inc.index.name)
        t0 = int(ticks[0])
    form = sc['knobs'].get('inc_cols')
    if form == 'reversed':
        inc = inc[list(inc.columns[::-1])]
    elif form == 'rotated':
        inc = inc[list(inc.columns[3:]) + list(inc.columns[:3])]
    elif form == 'extra_leading':
        inc = inc.copy()
        inc.insert(0, 'temperature', 21.5)
    init = pd.Series(sc['initial'], index=TRAJECTORY_COLS, name=t0)
    return dict(increments=inc, initial=init)


# ---------------------------------------------------------------------- execution
def _row_bits(row):
    return bits(np.asarray(row, dtype=float))


def _pva_series(vals, t):
    return pd.Series(vals, index=TRAJECTORY_COLS,
                     name=int(t) if isinstance(t, (int, np.integer)) else float(t))


class Model:
    """Reference model: fresh integrator per segment, single integrate call."""

    def __init__(self, inc, wa, big):
        self.inc = inc
        self.wa = wa
        self.big = big
        self.applied = 0
        self.start_segment(None, 0)

    def start_segment(self, pva, row):
        self.seg_pva = pva
        self.seg_row = row
        self.ref = None

    def reference(self):
        """All rows of the current segment (start row + one per remaining increment)."""
        if self.ref is None:
            with InitialSize(self.big):
                it = strapdown.Integrator(self.seg_pva, self.wa)
                it.integrate(self.inc.iloc[self.seg_row:])
                self.ref = it.trajectory
        return self.ref

    def expected_rows(self, a, b):
        """Reference rows for increments a..b-1 (absolute indices)."""
        ref = self.reference()
        return ref.iloc[1 + a - self.seg_row: 1 + b - self.seg_row]

    def expected_after(self, single_row_frame):
        """Row a fresh integrator appends for an arbitrary increment after the rows
        applied so far in this segment."""
        with InitialSize(self.big):
            it = strapdown.Integrator(self.seg_pva, self.wa)
            if self.applied > self.seg_row:
                it.integrate(self.inc.iloc[self.seg_row:self.applied])
            it.integrate(single_row_frame)
            return it.trajectory.iloc[-1]


def execute(sc, want='C02'):
    """Run the history; return (violations_c02, violations_c13, stats, digest).

    Two monitor modes (knob ``observe``): in *observing* mode the stored trajectory is
    compared with the model after every operation; in *blind* mode the monitor looks at
    nothing but the values the operations themselves return and at the trajectory once,
    after the last operation - so that lazily maintained state is not healed by the
    monitor's own reads.
    """
    m = materialise(sc)
    inc = m['increments']
    n = len(inc)
    wa = bool(sc['knobs']['with_altitude'])
    size = int(sc['knobs']['initial_size'])
    observe = bool(sc['knobs'].get('observe', True))
    v02, v13 = [], []
    log = []
    sig = []
    stats = dict(ops=0, grow=0, grow_in_predict=0, straddle=0, set_pva=0, predicts=0,
                 empty_chunks=0, rows=0, keep_att=0, blind=int(not observe), long_chunk=0,
                 stamping=sc['knobs'].get('stamping', 'right'), zero_predict=0,
                 inc_cols=sc['knobs'].get('inc_cols'))
    init = m['initial']
    init_copy = init.copy()
    alt_ref = float(init['alt'])
    with InitialSize(size), KernelShim() as shim:
        try:
            it = strapdown.Integrator(init, wa)
        except Exception as e:
            return ([V('exception', f"constructor raised {type(e).__name__}: {e}")], [],
                    stats, digest('ctor-exc'))
        if _row_bits(init) != _row_bits(init_copy):
            v02.append(V('arg-modified', "constructor modified its pva argument"))
        model = Model(inc, wa, max(10000, n + 16))
        model.start_segment(init_copy, 0)
        # model of the stored trajectory: rows, times, and per-row VD alternatives
        first = init_copy.to_numpy(dtype=float).copy()
        vd_alt = {}
        if not wa:
            # C02 does not say how the stored initial row shows VD in 2-D mode (today the
            # constructor zeroes it; whether it must is C13's business): allow both
            vd_alt[0] = float(first[5])
            first[5] = 0.0
        rows = [first]
        exact_int = isinstance(init.name, (int, np.integer))

        def T(x):
            return int(x) if exact_int else float(x)
        t_index = [T(init.name)]

        def row_ok(got, k):
            want_row = rows[k]
            if bits(np.asarray(got, dtype=float)) == bits(want_row):
                return True
            if k in vd_alt:
                alt = want_row.copy()
                alt[5] = vd_alt[k]
                return bits(np.asarray(got, dtype=float)) == bits(alt)
            return False

        def traj_ok(tr):
            idx = np.asarray(tr.index)
            same_idx = (len(idx) == len(t_index) and
                        ((idx.dtype.kind in 'iu' and
                          np.array_equal(idx.astype(np.int64), np.asarray(t_index, np.int64)))
                         if exact_int else bits(idx) == bits(np.asarray(t_index))))
            if len(tr) != len(rows) or not same_idx:
                return "time index is not the start time followed by every applied " \
                       "increment time once"
            vals = tr.to_numpy()
            for k in range(len(rows)):
                if not row_ok(vals[k], k):
                    return f"stored row {k} (t={t_index[k]!r}) differs from the model"
            return None

        for op in sc['ops']:
            stats['ops'] += 1
            name = op[0]
            cap_before = integrator_capacity(it)
            grow_before = shim.grow_events
            held = len(rows)
            try:
                if name == 'integrate':
                    k = min(int(op[1]), n - model.applied)
                    a, b = model.applied, model.applied + k
                    chunk = inc.iloc[a:b]
                    chunk_copy = chunk.copy()
                    ret = it.integrate(chunk)
                    model.applied = b
                    if k == 0:
                        stats['empty_chunks'] += 1
                    if k >= 100:
                        stats['long_chunk'] += 1
                    stats['rows'] += k
                    if held + k > cap_before > held and k > 1:
                        stats['straddle'] += 1
                    log.append(ret)
                    if bits(chunk.to_numpy()) != bits(chunk_copy.to_numpy()):
                        v02.append(V('arg-modified', "integrate modified its increments"))
                    exp = model.expected_rows(a, b)
                    exp_vals = exp.to_numpy()
                    if len(ret) != k + 1:
                        v02.append(V('chunk-return', f"integrate({k} rows) returned "
                                                     f"{len(ret)} rows, expected {k + 1} "
                                                     f"(previous last row + appended)"))
                    else:
                        if not row_ok(ret.iloc[0].to_numpy(), held - 1) or \
                                T(ret.index[0]) != t_index[-1]:
                            v02.append(V('chunk-return',
                                         "integrate's first returned row is not the "
                                         "previous last row"))
                        if bits(ret.iloc[1:].to_numpy()) != bits(exp_vals) or \
                                bits(ret.index[1:]) != bits(exp.index):
                            j = _first_diff(ret.iloc[1:], exp)
                            v02.append(V('appended-rows',
                                         f"row {j} appended by integrate(chunk {a}:{b}) "
                                         f"differs from single-shot integration "
                                         f"(capacity {cap_before}, rows held {held})"))
                    rows.extend(exp_vals[j].copy() for j in range(k))
                    t_index += [T(t) for t in inc.index[a:b]]
                    if not wa:
                        _check_2d(ret.iloc[1:], alt_ref, v13, f"integrate({a}:{b})")
                elif name in ('predict', 'predict_scaled'):
                    if model.applied >= n:
                        continue
                    stats['predicts'] += 1
                    row = inc.iloc[model.applied]
                    if name == 'predict_scaled':
                        row = float(op[1]) * row
                        row.name = inc.index[model.applied]
                        if float(op[1]) == 0.0:
                            stats['zero_predict'] += 1
                    row_copy = row.copy()
                    ret = it.predict(row)
                    log.append(ret)
                    if _row_bits(row) != _row_bits(row_copy):
                        v02.append(V('arg-modified', "predict modified its increment"))
                    if name == 'predict':
                        exp = model.expected_rows(model.applied, model.applied + 1).iloc[0]
                    else:
                        exp = model.expected_after(row.to_frame().transpose())
                    if _row_bits(ret) != _row_bits(exp) or float(ret.name) != float(exp.name):
                        v02.append(V('predict-row',
                                     f"predict(increment {model.applied}"
                                     f"{'' if name == 'predict' else ' scaled'}) differs "
                                     f"from the row integrate appends "
                                     f"(capacity {cap_before}, rows held {held})"))
                    if shim.grow_events > grow_before:
                        stats['grow_in_predict'] += 1
                    if not wa:
                        _check_2d(ret.to_frame().transpose(), alt_ref, v13,
                                  f"predict({model.applied})")
                elif name == 'get_pva':
                    ret = it.get_pva()
                    log.append(ret)
                    if not row_ok(ret.to_numpy(), held - 1) or T(ret.name) != t_index[-1]:
                        v02.append(V('get', "get_pva is not the last trajectory row"))
                elif name == 'get_time':
                    ret = it.get_time()
                    log.append(float(ret))
                    if T(ret) != t_index[-1]:
                        v02.append(V('get', f"get_time()={T(ret)!r}, expected "
                                            f"{t_index[-1]!r}"))
                elif name == 'get_pva_scribble':
                    # the caller edits, in place, the Series it was handed by get_pva: its
                    # own object now - the integrator's state must not follow
                    q = it.get_pva()
                    try:
                        q.iloc[:] = q.to_numpy() + 1.0
                    except ValueError:
                        pass                     # a read-only result is fine too
                    ret = it.get_pva()
                    log.append(ret)
                    if not row_ok(ret.to_numpy(), held - 1):
                        v02.append(V('get', "editing the Series returned by get_pva in "
                                            "place changed the integrator's latest state"))
                elif name in ('set_pva', 'fix_position', 'set_pva_roundtrip',
                              'set_pva_scribble'):
                    stats['set_pva'] += 1
                    t = t_index[-1]
                    if name in ('set_pva', 'set_pva_scribble'):
                        p = _pva_series(op[1], t)
                    else:
                        # a user reads the state, edits position/velocity only and writes
                        # it back: the supplied angles are exactly the held ones
                        stats['keep_att'] += 1
                        p = it.get_pva().copy()
                        if not row_ok(p.to_numpy(), held - 1):
                            v02.append(V('get', "get_pva is not the last trajectory row"))
                        if name == 'fix_position':
                            d = np.asarray(op[1], dtype=float)
                            p.iloc[0] += d[0] * 1e-5
                            p.iloc[1] += d[1] * 1e-5
                            p.iloc[2] += d[2]
                            p.iloc[3] += d[3]
                            p.iloc[4] += d[4]
                        p.name = t
                    p_copy = p.copy()
                    name_form = op[2] if name == 'set_pva' and len(op) > 2 else None
                    if name_form is not None:
                        # "overwriting the latest state": the state is the nine numbers; the
                        # time is the integrator's own.  The Series may carry no name or a
                        # stamp from elsewhere.
                        stats['foreign_name'] = stats.get('foreign_name', 0) + 1
                        p = p.copy()
                        p.name = {'none': None, 'first': t_index[0],
                                  'other': (int(t) + 12345 if exact_int
                                            else float(t) + 12345.678),
                                  'int': 7}[name_form]
                    it.set_pva(p)
                    if _row_bits(p) != _row_bits(p_copy):
                        v02.append(V('arg-modified', "set_pva modified its argument"))
                    rows[-1] = p_copy.to_numpy(dtype=float).copy()
                    if not wa:
                        # the property speaks about the continuation, not this entry
                        vd_alt[held - 1] = 0.0
                    else:
                        vd_alt.pop(held - 1, None)
                    model.start_segment(p_copy, model.applied)
                    alt_ref = float(p_copy['alt'])
                    if name == 'set_pva_scribble':
                        # the caller re-uses its own Series after the call
                        p.iloc[:] = p.to_numpy() * 0.5 + 7.0
                else:
                    raise ValueError(name)
                if observe and not v02:
                    problem = traj_ok(it.trajectory)
                    if problem:
                        cls = {'integrate': 'appended-rows', 'predict': 'predict-side-effect',
                               'predict_scaled': 'predict-side-effect'}.get(
                            name, 'set-readback' if 'set' in name or name == 'fix_position'
                            else 'history-rewritten')
                        v02.append(V(cls, f"after {name}: {problem}"))
            except KernelBoundsViolation as e:
                v02.append(V('kernel-bounds', f"{name}: {e}"))
                break
            except Exception as e:
                v02.append(V('exception', f"{name} raised {type(e).__name__}: "
                                          f"{str(e)[:120]}"))
                break
            grew = shim.grow_events > grow_before
            if grew:
                stats['grow'] += 1
            csize = ''
            if name == 'integrate':
                kk = int(op[1])
                csize = '0' if kk == 0 else '1' if kk == 1 else 's' if kk <= 5 else \
                    'L' if kk < 100 else 'X'
            code = {'integrate': 'i', 'predict': 'p', 'predict_scaled': 'q', 'get_pva': 'g',
                    'get_time': 't', 'set_pva': 's', 'fix_position': 'f',
                    'set_pva_roundtrip': 'r', 'set_pva_scribble': 'S',
                    'get_pva_scribble': 'G'}[name]
            sig.append(f"{code}{csize}{'^' if grew else ''}")
            if v02 and want == 'C02':
                break
            if v13 and want == 'C13':
                break
        else:
            # final observation: the stored trajectory as a whole
            problem = traj_ok(it.trajectory)
            if problem:
                v02.append(V('time-index' if 'time index' in problem else 'appended-rows',
                             f"final trajectory: {problem}"))
            gt = it.get_time()
            if T(gt) != t_index[-1]:
                v02.append(V('get', f"final get_time()={T(gt)!r}, expected "
                                    f"{t_index[-1]!r}"))
        stats['kernel_calls'] = shim.calls
    head = f"{'3d' if wa else '2d'}|cap{size}|{'obs' if observe else 'blind'}|"
    return v02, v13, dict(stats, sig=head + ''.join(sig)), digest(log)


def _first_diff(a, b):
    av, bv = a.to_numpy(), b.to_numpy()
    if av.shape != bv.shape:
        return -1
    for j in range(len(av)):
        if bits(av[j]) != bits(bv[j]):
            return j
    return -1


def _check_2d(rows, alt_ref, v13, where):
    if len(rows) == 0:
        return
    vd = rows['VD'].to_numpy()
    alt = rows['alt'].to_numpy()
    if not (vd == 0.0).all():
        k = int(np.nonzero(vd != 0.0)[0][0])
        v13.append(V('vd-nonzero', f"{where}: produced row {k} has VD={float(vd[k])!r}",
                     'integrator/vd-nonzero'))
    if not (alt == alt_ref).all():
        k = int(np.nonzero(alt != alt_ref)[0][0])
        v13.append(V('alt-moved', f"{where}: produced row {k} has alt={float(alt[k])!r}, "
                                  f"most recently supplied altitude is {alt_ref!r}",
                     'integrator/alt-moved'))


# ------------------------------------------------------------------------ shrinking
def shrink(sc, predicate, budget_s=60.0):
    import copy
    import time as _time
    from .shrink import ddmin_list
    deadline = _time.time() + budget_s
    sc = copy.deepcopy(sc)

    def ok(c):
        try:
            return bool(predicate(c))
        except Exception:
            return False

    def with_ops(ops):
        c = copy.deepcopy(sc)
        c['ops'] = ops
        return c
    sc['ops'] = ddmin_list(sc['ops'], lambda o: ok(with_ops(o)), min_len=1,
                           deadline=deadline)
    # shrink chunk sizes
    for i, op in enumerate(sc['ops']):
        if op[0] == 'integrate':
            for k in (0, 1, 2, op[1] // 2):
                if k < op[1]:
                    c = copy.deepcopy(sc)
                    c['ops'][i] = ['integrate', int(k)]
                    if ok(c):
                        sc = c
                        break
    # cut the IMU tail to what the ops use
    used = sum(op[1] for op in sc['ops'] if op[0] == 'integrate') + 1
    st = sc['imu']['stamps']
    if used + 1 < len(st):
        c = copy.deepcopy(sc)
        c['imu']['stamps'] = st[:max(used + 1, 3)]
        if ok(c):
            sc = c
    for path, val in [(('perturb', 'theta'), 0.0), (('perturb', 'dv'), 0.0),
                      (('perturb', 'vertical'), 0.0), (('knobs', 'initial_size'), 10000),
                      (('world', 'rate_terms'), []), (('world', 'force_terms'), [])]:
        c = copy.deepcopy(sc)
        c[path[0]][path[1]] = val
        if c != sc and ok(c):
            sc = c
    return sc
