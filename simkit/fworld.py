"""Discrete-event sensor world for the two navigation filters.

``generate``     run PRNG -> explicit SCENARIO (JSON-able: world, clocks, fault trace, knobs)
``materialise``  scenario -> tables / objects (pure function of scenario and /repo code)
``run_filter``   real ``run_feedback_filter`` / ``run_feedforward_filter`` under monitors

The time stamps of the IMU / trajectory / measurement tables are the seam: every timing
fault a deployment produces (jitter, loss, stalls, latency, clustering, shared epochs,
out-of-span samples, odd clock origins) is injected there by this module, and the
filters read time from nowhere else.
"""
from . import env  # noqa: F401
import math

import numpy as np
import pandas as pd

from pyins import filters, inertial_sensor, strapdown
from pyins.util import THETA_COLS, DV_COLS

from . import world as W
from .monitors import (StepBudget, StepBudgetExceeded, KernelShim, KernelBoundsViolation,
                       InitialSize, spy_class)

SENSOR_CLASSES = ['Position', 'NedVelocity', 'BodyVelocity']
TOKEN = {'Position': 'p', 'NedVelocity': 'v', 'BodyVelocity': 'b'}

FAULT_KINDS = ['imu_jitter', 'imu_drop', 'imu_stall', 'meas_drop', 'meas_outage',
               'meas_latency', 'meas_snap', 'meas_cluster', 'meas_dup_cross',
               'meas_early', 'meas_late', 'at_start', 'at_end', 'clock_origin',
               'no_measurements', 'traj_subsample', 'meas_ulp', 'meas_unsorted',
               'increments_dropout', 'imu_zero_fill']

TEMPLATES = ['free', 'free', 'free', 'free', 'free', 'free',
             'last_interval', 'triple_cluster', 'boundary', 'tenhz_default',
             'grow_inside', 'empty_table', 'all_lost', 'first_interval',
             'shared_epochs', 'repo_like', 'rounding_hazard', 'rounding_hazard']
# directed template for known finding F9 (several accurate fixes inside one long IMU gap make
# the feedback filter diverge); drawn separately with a small probability
P_FIXES_IN_GAP = 0.0     # (the divergence is too fragile for a template; c09 replays the
                          #  recorded F9 scenario itself once per batch instead)


def rng_of(run_seed):
    return np.random.Generator(np.random.PCG64(int(run_seed)))


def _f(x):
    return float(x)


def _logu(r, lo, hi):
    return float(10 ** r.uniform(lo, hi))


# ------------------------------------------------------------------- sensor models
def gen_sensor_model(r, kind, allow_sm=True, p_none=0.25):
    """Random EstimationModel parameters as a JSON-able dict (or None)."""
    if r.random() < p_none:
        return None
    lo, hi = (-6.0, -3.0) if kind == 'gyro' else (-4.0, -1.0)
    form = ['scalar', 'array'][int(r.integers(2))]

    def dec():
        return _logu(r, lo, hi)
    if form == 'scalar':
        bias = dec() if r.random() < 0.8 else None
        noise = dec() if r.random() < 0.7 else None
        walk = dec() * 0.1 if (bias is not None and r.random() < 0.4) else None
        sm = _logu(r, -4, -2) if (allow_sm and r.random() < 0.25) else None
    else:
        b = [dec() if r.random() < 0.6 else 0.0 for _ in range(3)]
        n = [dec() if r.random() < 0.6 else 0.0 for _ in range(3)]
        w = [dec() * 0.1 if (bi > 0 and r.random() < 0.4) else 0.0 for bi in b]
        s = [[_logu(r, -4, -2) if (allow_sm and r.random() < 0.25) else 0.0
              for _ in range(3)] for _ in range(3)]
        bias = b if any(b) else None
        noise = n if any(n) else None
        walk = w if any(w) else None
        sm = s if any(any(row) for row in s) else None
    if bias is None and noise is None and walk is None and sm is None:
        return None
    return dict(bias_sd=bias, noise=noise, bias_walk=walk, scale_misal_sd=sm)


def build_model(params):
    if params is None:
        return None
    conv = {k: (None if v is None else (np.asarray(v, dtype=float)
                                        if isinstance(v, list) else float(v)))
            for k, v in params.items()}
    return inertial_sensor.EstimationModel(**conv)


def model_has_sm(params):
    return params is not None and params.get('scale_misal_sd') is not None


# --------------------------------------------------------------------- generation
def _gen_imu_stamps(r, enabled, trace, template, n_range):
    if template == 'rounding_hazard':
        # non-dyadic periods, a record that starts at / crosses zero or starts at a small
        # time, and an early data gap whose end is more than twice its start: the regime
        # where a + (b - a) != b and fl(t + step) falls short of the next stamp
        period = [0.1, 0.01, 0.07, 1.0 / 3.0, 0.03][int(r.integers(5))]
        n = int(r.integers(n_range[0], min(n_range[1], 40) + 1))
        k0 = [0, 0, -int(r.integers(1, n)), int(r.integers(1, 4))][int(r.integers(4))]
        st = period * (k0 + np.arange(n + 1))
        if r.random() < 0.5:
            st = np.cumsum(np.r_[st[0], np.full(n, period)])
        if r.random() < 0.8 and n > 6:
            at = int(r.integers(2, min(8, n - 2)))
            # the gap stays within the 3 s of the imu_stall fault: one strapdown step over
            # tens of seconds of manoeuvring is outside the physically sane domain in which
            # finiteness is demanded (DESIGN.md section 4; a 26 s gap made the EKF overflow
            # in the second thorough soak - a generator error, not a finding)
            kmax = max(4, int(3.0 / period))
            k = int(r.integers(3, kmax + 1))
            mul = bool(r.random() < 0.5)
            base = st.copy()
            for k_try in list(range(k, kmax + 1)) + list(range(3, k)):
                # prefer a gap for which a + (b - a) really rounds off b
                st = base.copy()
                st[at:] = (st[at:] + k_try * period) if mul else \
                    period * (k0 + k_try + np.arange(at, n + 1))
                if st[at - 1] + (st[at] - st[at - 1]) != st[at]:
                    k = k_try
                    break
            trace.append(dict(kind='imu_stall', at=at, gap=float(k * period)))
        if k0 < 0:
            trace.append(dict(kind='clock_origin', origin=float(st[0])))
        return np.asarray(st, dtype=float), period
    if template == 'tenhz_default':
        period = 0.1
        origin = 0.0
        form = 'mul'
    elif template == 'repo_like':
        period = [0.01, 0.02, 0.1][int(r.integers(3))]
        origin = 0.0
        form = 'arange'
    else:
        period = [0.005, 0.01, 0.02, 0.05, 0.1, 0.2][int(r.integers(6))]
        origin = 0.0
        form = ['mul', 'cum', 'arange'][int(r.integers(3))]
    n = int(r.integers(n_range[0], n_range[1] + 1))
    if 'clock_origin' in enabled and template not in ('tenhz_default', 'repo_like'):
        which = int(r.integers(4))
        origin = [-_f(r.uniform(1, 50)), 4.0e5 + _f(r.uniform(0, 1000)),
                  _f(r.uniform(0, 2000)), 123.5][which]
        trace.append(dict(kind='clock_origin', origin=origin))
    if form == 'mul':
        st = origin + period * np.arange(n + 1)
    elif form == 'cum':
        st = np.cumsum(np.r_[origin, np.full(n, period)])
    else:
        st = np.arange(origin, origin + period * (n + 0.5), period)
    st = np.asarray(st, dtype=float)
    if template in ('tenhz_default', 'repo_like'):
        return st, period
    if 'imu_jitter' in enabled:
        amp = _f(r.uniform(0.05, 0.4))
        st[1:] = st[1:] + r.uniform(-amp, amp, len(st) - 1) * period
        trace.append(dict(kind='imu_jitter', amp=amp))
    if 'imu_drop' in enabled and len(st) > 8:
        k = int(r.integers(1, 4))
        at = int(r.integers(1, len(st) - k - 2))
        st = np.delete(st, np.arange(at, at + k))
        trace.append(dict(kind='imu_drop', at=at, k=k))
    if 'imu_stall' in enabled and len(st) > 5:
        at = int(r.integers(2, len(st) - 1))
        gap = _f(r.uniform(0.5, 3.0))
        st[at:] = st[at:] + gap
        trace.append(dict(kind='imu_stall', at=at, gap=gap))
    return st, period


def _inside(r, a, b, k):
    """k distinct stamps strictly inside (a, b)."""
    out = set()
    tries = 0
    while len(out) < k and tries < 50:
        tries += 1
        t = float(a + (b - a) * r.uniform(0.02, 0.98))
        if a < t < b:
            out.add(t)
    return sorted(out)


def _gen_sensors(r, imu, period, enabled, trace, template, max_epochs):
    t0, t1 = imu[0], imu[-1]
    span = t1 - t0
    n_int = len(imu) - 1
    n_sens = int(r.integers(0, 4))
    if template in ('last_interval', 'triple_cluster', 'boundary', 'first_interval',
                    'empty_table', 'all_lost', 'repo_like'):
        n_sens = max(n_sens, 1)
    if template == 'shared_epochs':
        n_sens = max(n_sens, 2)
    order = [int(i) for i in r.permutation(3)[:n_sens]]
    sensors = []
    for ci in order:
        cls = SENSOR_CLASSES[ci]
        mode = ['on_epoch', 'periodic', 'periodic', 'random'][int(r.integers(4))]
        if template == 'repo_like':
            mode = 'on_epoch'
        if mode == 'on_epoch':
            k = int(r.integers(0, min(max_epochs, len(imu)) + 1))
            st = np.sort(r.choice(imu, size=k, replace=False)) if k else np.empty(0)
        elif mode == 'periodic':
            p = [period * _f(r.uniform(0.7, 6.0)), 0.5, 1.0, period * 3][int(r.integers(4))]
            p = max(p, span / max_epochs)
            ph = _f(r.uniform(0, p))
            st = np.arange(t0 + ph, t1, p)
        else:
            k = int(r.integers(0, max_epochs + 1))
            st = np.sort(r.uniform(t0, t1, k))
        sd = _logu(r, -1.3, 0.7) if cls == 'Position' else _logu(r, -1.7, 0.0)
        lever = None
        if cls != 'BodyVelocity' and r.random() < 0.5:
            lever = [_f(x) for x in r.uniform(-2, 2, 3)]
        sensors.append(dict(cls=cls, sd=sd, lever=lever,
                            noise_seed=int(r.integers(2 ** 31)),
                            stamps=[float(x) for x in st]))

    def S(i):
        return np.asarray(sensors[i]['stamps'], dtype=float)

    def setS(i, st):
        sensors[i]['stamps'] = [float(x) for x in np.unique(np.asarray(st, dtype=float))]

    ns = len(sensors)
    if ns:
        if 'meas_drop' in enabled:
            for i in range(ns):
                st = S(i)
                if len(st) > 1:
                    keep = r.random(len(st)) > 0.3
                    if not keep.all():
                        trace.append(dict(kind='meas_drop', sensor=i,
                                          n=int((~keep).sum())))
                    setS(i, st[keep])
        if 'meas_outage' in enabled:
            i = int(r.integers(ns))
            a = t0 + span * _f(r.uniform(0, 0.7))
            b = a + span * _f(r.uniform(0.1, 0.5))
            st = S(i)
            keep = (st < a) | (st > b)
            if not keep.all():
                trace.append(dict(kind='meas_outage', sensor=i, a=a, b=b,
                                  n=int((~keep).sum())))
            setS(i, st[keep])
        if 'meas_latency' in enabled:
            i = int(r.integers(ns))
            off = period * _f(r.uniform(0.05, 0.95))
            if len(S(i)):
                trace.append(dict(kind='meas_latency', sensor=i, offset=off))
            setS(i, S(i) + off)
        if 'meas_snap' in enabled:
            i = int(r.integers(ns))
            st = S(i)
            if len(st):
                sel = r.random(len(st)) < 0.5
                idx = np.clip(np.searchsorted(imu, st), 0, len(imu) - 1)
                st = np.where(sel, imu[idx], st)
                trace.append(dict(kind='meas_snap', sensor=i, n=int(sel.sum())))
                setS(i, st)
        if 'meas_ulp' in enabled or template == 'rounding_hazard':
            # a sensor clock that computes the "same" epoch by another formula: stamps one
            # ulp away from an IMU epoch
            i = int(r.integers(ns))
            k = int(r.integers(1, 4))
            pick = r.choice(imu, size=min(k, len(imu)), replace=False)
            off = [float(np.nextafter(t, np.inf)) if r.random() < 0.5
                   else float(np.nextafter(t, -np.inf)) for t in pick]
            setS(i, np.r_[S(i), off])
            trace.append(dict(kind='meas_ulp', sensor=i, n=len(off)))
            if ns > 1 and r.random() < 0.6:
                # two sensors a fraction of a microsecond apart (but not identical)
                a_, b_ = [int(x) for x in r.permutation(ns)[:2]]
                src = S(a_)
                if len(src):
                    t = float(src[int(r.integers(len(src)))])
                    d = [float(np.nextafter(t, np.inf)), float(np.nextafter(t, -np.inf)),
                         t + 2e-7, t - 3e-8][int(r.integers(4))]
                    if d != t:
                        setS(b_, np.r_[S(b_), d])
                        trace.append(dict(kind='meas_near_dup', src=a_, dst=b_))
        if 'meas_cluster' in enabled or template in ('last_interval', 'triple_cluster',
                                                     'first_interval'):
            n_clusters = int(r.integers(1, 3))
            for _ in range(n_clusters):
                where = int(r.integers(4))
                if template == 'last_interval':
                    where = 1
                elif template == 'first_interval':
                    where = 0
                j = [0, n_int - 1, int(r.integers(n_int)), int(r.integers(n_int))][where]
                k = int(r.integers(2, 6))
                if template == 'triple_cluster':
                    k = max(k, 3)
                multi = ns > 1 and r.random() < 0.5
                pts = _inside(r, imu[j], imu[j + 1], k)
                for t in pts:
                    i = int(r.integers(ns)) if multi else 0
                    setS(i, np.r_[S(i), t])
                trace.append(dict(kind='meas_cluster', interval=j, k=len(pts),
                                  multi=bool(multi)))
                template = 'free' if template in ('last_interval', 'first_interval',
                                                  'triple_cluster') else template
        if ('meas_dup_cross' in enabled or template == 'shared_epochs') and ns > 1:
            a, b = [int(x) for x in r.permutation(ns)[:2]]
            st = S(a)
            if len(st) == 0:
                st = np.array([float(imu[int(r.integers(1, len(imu)))]) -
                               period * _f(r.uniform(0, 1))])
                setS(a, st)
            k = int(r.integers(1, min(3, len(st)) + 1))
            pick = r.choice(st, size=k, replace=False)
            setS(b, np.r_[S(b), pick])
            trace.append(dict(kind='meas_dup_cross', src=a, dst=b, n=k))
        if 'meas_early' in enabled:
            i = int(r.integers(ns))
            setS(i, np.r_[S(i), t0 - _f(r.uniform(1e-6, 2.0)), t0 - period])
            trace.append(dict(kind='meas_early', sensor=i))
        if 'meas_late' in enabled:
            i = int(r.integers(ns))
            setS(i, np.r_[S(i), t1 + _f(r.uniform(1e-6, 2.0)), t1 + period])
            trace.append(dict(kind='meas_late', sensor=i))
        if 'at_start' in enabled or template == 'boundary':
            i = int(r.integers(ns))
            setS(i, np.r_[S(i), t0])
            trace.append(dict(kind='at_start', sensor=i))
        if 'at_end' in enabled or template == 'boundary':
            i = int(r.integers(ns))
            setS(i, np.r_[S(i), t1])
            trace.append(dict(kind='at_end', sensor=i))
        if template == 'empty_table':
            i = int(r.integers(ns))
            setS(i, [])
            trace.append(dict(kind='meas_outage', sensor=i, whole=True))
        if template == 'all_lost':
            for i in range(ns):
                how = int(r.integers(4))
                st = [[], [t1], [t0 - 1.0, t0 - period], [t1 + 0.5, t1]][how]
                setS(i, st)
            trace.append(dict(kind='meas_outage', all=True))
        # cap the per-sensor load (run time), keeping boundary and clustered stamps
        for i in range(ns):
            st = S(i)
            if len(st) > max_epochs + 6:
                keep = np.sort(r.choice(len(st), size=max_epochs + 6, replace=False))
                setS(i, st[keep])
    return sensors


def gen_time_step(r, imu, template, regime=None):
    gaps = np.diff(imu)
    gap = float(np.median(gaps))
    span = float(imu[-1] - imu[0])
    if template in ('tenhz_default',):
        return None
    if template == 'repo_like':
        return 1.0
    opts = ['default', 'tiny', 'gap', 'gap_minus', 'gap_plus', 'gap2_5', 'one', 'half',
            'span3', 'huge', 'rand']
    if template == 'rounding_hazard' and regime is None:
        opts = ['default', 'tiny', 'gap', 'gap_minus', 'gap_plus', 'gap_half', 'gap_half']
    pick = regime or opts[int(r.integers(len(opts)))]
    return {'default': None, 'tiny': gap / 7.3, 'gap': gap, 'gap_minus': gap * (1 - 1e-7),
            'gap_plus': gap * (1 + 1e-7), 'gap2_5': gap * 2.5, 'one': 1.0,
            'half': max(span / 2, 1e-3), 'span3': span * 3, 'huge': 1.0e6,
            'gap_half': gap / 2,
            'rand': _logu(r, -2.5, 0.7)}[pick]


def generate(run_seed, filt, profile='sched'):
    """Draw one filter scenario.  ``filt`` in {'feedback', 'feedforward'}.

    profile 'sched'  : adversarial scheduling (C09/C10/C13)
            'est'    : estimator-equivalence runs (C11): moderate size, time steps
                       0.2..5 s plus degenerate ones, rich sensor models
    """
    r = rng_of(run_seed)
    for attempt in range(40):
        sc = _generate_once(r, filt, profile)
        if sc is not None:
            sc['run_seed'] = int(run_seed)
            sc['attempts'] = attempt + 1
            return sc
    raise RuntimeError("generator could not place a world inside the domain fence")


def fixes_in_long_gap(sc):
    """Largest number of distinct measurement epochs strictly inside one IMU interval of
    at least 0.5 s (feature of known finding F9)."""
    st = np.asarray(sc['imu']['stamps'], dtype=float)
    ep = np.unique(np.concatenate([np.asarray(s_['stamps'], dtype=float)
                                   for s_ in sc['sensors']] + [np.empty(0)]))
    best = 0
    for a, b in zip(st[:-1], st[1:]):
        if b - a >= 0.5:
            best = max(best, int(((ep > a) & (ep < b)).sum()))
    return best


def _generate_fixes_in_gap(r, filt):
    """Directed F9 world: a 1.5-3 s IMU data gap with 6-8 accurate position fixes in it."""
    wd = W.make_world(r)
    period = [0.02, 0.04, 0.05][int(r.integers(3))]
    n = int(r.integers(8, 16))
    st = 100.0 + period * np.arange(n + 1)
    at = int(r.integers(3, n - 2))
    gap = float(r.uniform(1.5, 3.0))
    st[at:] += gap
    k = int(r.integers(6, 9))
    fixes = sorted(float(x) for x in r.uniform(st[at - 1] + 0.02, st[at] - 0.02, k))
    sensors = [dict(cls='Position', sd=float(r.uniform(0.03, 0.08)),
                    lever=[float(x) for x in r.uniform(-2, 2, 3)] if r.random() < 0.5 else None,
                    noise_seed=int(r.integers(2 ** 31)), stamps=fixes)]
    sig = [_logu(r, 0, 0.7), _logu(r, -0.3, 0.5), _logu(r, -0.5, 0.3), _logu(r, -0.3, 0.7)]
    e = np.clip(r.standard_normal(9), -2, 2)
    knobs = dict(with_altitude=bool(r.random() < 0.5), time_step=None, initial_size=10000,
                 measurements_arg='list', rerun=None, gyro_model=None, accel_model=None,
                 models_omitted=False, sigmas=sig,
                 init_err=[_f(x) for x in e * np.array([sig[0]] * 3 + [sig[1]] * 3 +
                                                        [sig[2]] * 2 + [sig[3]])],
                 gyro_bias=[0.0] * 3, accel_bias=[0.0] * 3)
    sc = dict(format=1, kind='filter', filter=filt, profile='sched', template='fixes_in_gap',
              world=wd, imu=dict(type='increment', stamps=[float(x) for x in st]),
              sensors=sensors,
              faults=[dict(kind='imu_stall', at=at, gap=gap),
                      dict(kind='meas_cluster', interval=at - 1, k=k, multi=False)],
              knobs=knobs)
    try:
        if not materialise(sc, fence_only=True)['in_fence']:
            return None
    except Exception:
        return None
    return sc


def _generate_once(r, filt, profile):
    if filt == 'feedback' and profile == 'sched' and r.random() < P_FIXES_IN_GAP:
        return _generate_fixes_in_gap(r, filt)
    template = TEMPLATES[int(r.integers(len(TEMPLATES)))]
    enabled = [k for k in FAULT_KINDS if r.random() < 0.3]
    trace = []
    wd = W.make_world(r, gentle=(profile == 'est' and r.random() < 0.5))
    n_range = (6, 60) if profile == 'sched' else (8, 32)
    imu, period = _gen_imu_stamps(r, enabled, trace, template, n_range)
    imu_type = ['rate', 'increment'][int(r.integers(2))]
    max_epochs = 8 if profile == 'sched' else 5
    sensors = _gen_sensors(r, imu, period, enabled, trace, template, max_epochs)

    if 'meas_unsorted' in enabled:
        cand = [i for i, s_ in enumerate(sensors) if len(s_['stamps']) >= 2]
        if cand:
            i = cand[int(r.integers(len(cand)))]
            # the caller's table is not sorted by time (rows as they arrived)
            sensors[i]['row_order_seed'] = int(r.integers(2 ** 31))
            trace.append(dict(kind='meas_unsorted', sensor=i))
    with_altitude = bool(r.random() < 0.5)
    knobs = dict(with_altitude=with_altitude)
    regime = None
    if profile == 'est':
        regime = ['rand_est', 'one', 'half', 'gap2_5', 'default', 'tiny',
                  'huge'][int(r.integers(7))]
        if regime == 'rand_est':
            knobs['time_step'] = _f(r.uniform(0.2, 5.0))
        else:
            knobs['time_step'] = gen_time_step(r, imu, template, regime)
    else:
        knobs['time_step'] = gen_time_step(r, imu, template)
    knobs['initial_size'] = [1, 2, 3, 4, 5, 7, 8, 16, 10000][int(r.integers(9))]
    if template == 'grow_inside':
        knobs['initial_size'] = [1, 2, 3][int(r.integers(3))]
    marg = 'list'
    if not sensors:
        marg = ['none', 'empty', 'list'][int(r.integers(3))]
    if 'no_measurements' in enabled and r.random() < 0.5:
        sensors = []
        marg = ['none', 'empty'][int(r.integers(2))]
        trace.append(dict(kind='no_measurements', form=marg))
    knobs['measurements_arg'] = marg
    # second run with the SAME measurement / model objects: 'same' = the same call twice,
    # 'prefix' = first a run over the first half of the data, then the full one
    knobs['rerun'] = [None, None, None, None, None, None, 'same', 'prefix'][int(r.integers(8))]
    p_none = 0.3 if profile == 'sched' else 0.1
    knobs['gyro_model'] = gen_sensor_model(r, 'gyro', p_none=p_none)
    knobs['accel_model'] = gen_sensor_model(r, 'accel', p_none=p_none)
    knobs['models_omitted'] = bool(knobs['gyro_model'] is None and
                                   knobs['accel_model'] is None and r.random() < 0.5)
    if profile == 'est':
        sig = [_logu(r, -2, 2), _logu(r, -3, 1), _logu(r, -3, 0.5), _logu(r, -3, 1)]
    else:
        sig = [_logu(r, -1, 1.5), _logu(r, -2, 0.5), _logu(r, -2, 0.3), _logu(r, -2, 0.7)]
    knobs['sigmas'] = sig
    e = np.clip(r.standard_normal(9), -2, 2)
    knobs['init_err'] = [_f(x) for x in
                         e * np.array([sig[0]] * 3 + [sig[1]] * 3 + [sig[2]] * 2 + [sig[3]])]
    knobs['gyro_bias'] = [_f(x) for x in r.standard_normal(3) * 1e-4]
    knobs['accel_bias'] = [_f(x) for x in r.standard_normal(3) * 1e-2]
    if 'imu_zero_fill' in enabled and len(imu) > 4:
        # an IMU whose driver fills lost or saturated samples with zeros: a few increment
        # rows whose rotation and/or velocity increment is EXACTLY zero between ordinary rows
        k = int(r.integers(1, 4))
        rows_ = sorted({int(x) for x in r.integers(0, len(imu) - 1, size=k)})
        if r.random() < 0.4 and rows_[-1] + 1 < len(imu) - 1:
            rows_.append(rows_[-1] + 1)                     # two consecutive ones
        knobs['imu_zero_fill'] = dict(rows=rows_,
                                      what=['theta', 'dv', 'both'][int(r.integers(3))])
        trace.append(dict(kind='imu_zero_fill', rows=rows_))
    if filt == 'feedforward':
        k = 1
        if 'traj_subsample' in enabled and len(imu) > 12:
            k = int(r.integers(2, 5))
            trace.append(dict(kind='traj_subsample', k=k))
        knobs['traj_subsample'] = k
        sm = model_has_sm(knobs['gyro_model']) or model_has_sm(knobs['accel_model'])
        knobs['increments_given'] = bool(sm or r.random() < 0.6)
        knobs['nominal'] = ['computed', 'reference'][int(r.integers(2))]
        if not wd['rate_terms'] and r.random() < 0.7:
            # a straight leg with an idealised nominal trajectory (covariance analysis): the
            # nominal attitude is the same in every row, bit for bit
            knobs['nominal'] = 'constant_attitude'
        if profile == 'est' and r.random() < 0.1 and knobs['gyro_model'] is not None:
            # ONE EstimationModel object handed in as both gyro_model and accel_model
            knobs['accel_model'] = knobs['gyro_model']
            knobs['same_model_object'] = True
        if profile == 'est' and r.random() < 0.12:
            # an earlier call in the same process on the same data with other noise
            # densities (a noise sweep) must not influence this one
            knobs['noise_sweep_before'] = float(10 ** r.uniform(0.5, 1.5))
        if r.random() < 0.12 and not knobs.get('models_omitted'):
            # the caller ran the feedback filter on the same data first, with the same
            # sensor-model and measurement objects
            knobs['feedback_run_before'] = True
        if r.random() < 0.15:
            cand = [i for i, s_ in enumerate(sensors) if len(s_['stamps'])]
            if cand:
                i = cand[int(r.integers(len(cand)))]
                sensors[i]['outlier'] = dict(
                    row=int(r.integers(len(sensors[i]['stamps']))),
                    offset=[_f(x) for x in r.uniform(30, 400, 3) * r.choice([-1, 1], 3)])
                trace.append(dict(kind='meas_outlier', sensor=i))
        if 'increments_dropout' in enabled and knobs['increments_given'] and len(imu) > 8:
            # the increments table handed to the filter has lost a run of rows (IMU log
            # dropout) although the trajectory covers the interval
            at = int(r.integers(1, len(imu) - 5))
            k = int(r.integers(1, 5))
            knobs['increments_dropout'] = list(range(at, at + k))
            trace.append(dict(kind='increments_dropout', at=at, k=k))
    sc = dict(format=1, kind='filter', filter=filt, profile=profile, template=template,
              world=wd, imu=dict(type=imu_type, stamps=[float(x) for x in imu]),
              sensors=sensors, faults=trace, knobs=knobs)
    try:
        m = materialise(sc, fence_only=True)
    except Exception:
        return None
    if not m['in_fence']:
        return None
    return sc


# ------------------------------------------------------------------ materialisation
def materialise(sc, fence_only=False, fresh_spies=True):
    wd = sc['world']
    kn = sc['knobs']
    stamps = np.asarray(sc['imu']['stamps'], dtype=float)
    inc_clean, _ = W.clean_increments(wd, stamps, sc['imu']['type'])
    wa = bool(kn['with_altitude'])
    pva0 = W.true_initial_pva(wd, stamps[0])
    reference = strapdown.Integrator(pva0, wa).integrate(inc_clean)
    ok = W.in_fence(reference)
    if fence_only:
        return dict(in_fence=ok)
    scale = float(kn.get('error_scale', 1.0))
    inc = inc_clean.copy()
    dt = inc['dt'].values[:, None]
    inc[THETA_COLS] = inc[THETA_COLS].values + scale * np.asarray(kn['gyro_bias']) * dt
    inc[DV_COLS] = inc[DV_COLS].values + scale * np.asarray(kn['accel_bias']) * dt
    zf = kn.get('imu_zero_fill')
    if zf:
        rows_ = [i for i in zf['rows'] if 0 <= i < len(inc)]
        if zf['what'] in ('theta', 'both'):
            inc.iloc[rows_, [inc.columns.get_loc(c) for c in THETA_COLS]] = 0.0
        if zf['what'] in ('dv', 'both'):
            inc.iloc[rows_, [inc.columns.get_loc(c) for c in DV_COLS]] = 0.0
    init = W.perturb_pva(pva0, scale * np.asarray(kn['init_err'], dtype=float))
    init.name = float(stamps[0])
    meas = []
    delivery = []
    for s in sc['sensors']:
        data = W.aiding_samples(s['cls'], reference, wd, s['stamps'], s['sd'], s['lever'],
                                s['noise_seed'], scale=scale)
        if s.get('outlier') is not None and len(data):
            # value fault: ONE grossly wrong sample in the log (a multipath fix, a bit flip):
            # hundreds of sigma off
            o = s['outlier']
            j = int(o['row']) % len(data)
            off = np.asarray(o['offset'], dtype=float) * float(s['sd']) * scale
            if s['cls'] == 'Position':
                off = off * np.array([1e-5, 1e-5, 1.0])      # degrees, degrees, metres
            data.iloc[j, :3] = data.iloc[j, :3].to_numpy() + off
        if s.get('row_order_seed') is not None and len(data) > 1:
            perm = np.random.Generator(np.random.PCG64(int(s['row_order_seed']))) \
                .permutation(len(data))
            data = data.iloc[perm]
        form = s.get('table_form')
        if form == 'reversed':
            data = data[list(data.columns[::-1])]
        elif form == 'rotated':
            data = data[list(data.columns[1:]) + list(data.columns[:1])]
        elif form == 'wide':
            data = data.copy()
            data.insert(0, 'quality', 1.0)
            data['n_sat'] = 9.0
        if s.get('vertical_scramble') and s['cls'] == 'NedVelocity':
            # metamorphic twin: the measured vertical velocity replaced by other numbers,
            # every other sample by "not measured" (NaN)
            data = data.copy()
            vd = data['VD'].to_numpy() * -3.0 + 11.0
            if s.get('vertical_scramble') == 'nan':
                vd[::2] = np.nan
            data['VD'] = vd
        cls = spy_class(s['cls'])
        if s['cls'] == 'BodyVelocity':
            obj = cls(data, s['sd'] * scale)
        else:
            obj = cls(data, s['sd'] * scale,
                      None if s['lever'] is None else np.asarray(s['lever'], dtype=float))
        obj.spy_delivery = delivery
        meas.append(obj)
    if kn.get('state_labels') == 'permuted':
        # the caller's Pva / Trajectory with the labels in another order
        perm = list(init.index[3:]) + list(init.index[:3])
        init = init[perm]
    out = dict(in_fence=ok, delivery=delivery, increments=inc, increments_clean=inc_clean,
               reference=reference, initial=init, measurements=meas,
               t_start=float(stamps[0]), t_end=float(stamps[-1]), with_altitude=wa)
    if sc['filter'] == 'feedforward':
        computed = strapdown.Integrator(init, wa).integrate(inc)
        k = int(kn.get('traj_subsample', 1))
        computed = computed.iloc[::k]
        ref = reference.iloc[::k]
        if kn.get('state_labels') == 'permuted':
            cols = list(computed.columns[3:]) + list(computed.columns[:3])
            computed = computed[cols]
            ref = ref[cols]
        out['computed'] = computed
        drop = [i for i in kn.get('increments_dropout') or [] if 0 <= i < len(inc)]
        out['increments_passed'] = inc.drop(inc.index[drop]) if drop else inc
        out['nominal'] = computed if kn.get('nominal') == 'computed' else ref
        if kn.get('nominal') == 'constant_attitude':
            nom = ref.copy()
            for c in ('roll', 'pitch', 'heading'):
                nom[c] = float(nom[c].iloc[0])
            out['nominal'] = nom
        out['t_start'] = float(computed.index[0])
        out['t_end'] = float(computed.index[-1])
    return out


def scaled_model_params(params, scale):
    if params is None or scale == 1.0:
        return params
    out = {}
    for k, v in params.items():
        if v is None:
            out[k] = None
        elif isinstance(v, list):
            out[k] = (np.asarray(v, dtype=float) * scale).tolist()
        else:
            out[k] = float(v) * scale
    return out


def filter_kwargs(sc, m):
    kn = sc['knobs']
    scale = float(kn.get('error_scale', 1.0))
    kw = {}
    if not kn.get('models_omitted'):
        kw['gyro_model'] = build_model(scaled_model_params(kn['gyro_model'], scale))
        kw['accel_model'] = build_model(scaled_model_params(kn['accel_model'], scale))
        if kn.get('same_model_object'):
            kw['accel_model'] = kw['gyro_model']
    marg = kn['measurements_arg']
    if marg == 'list':
        kw['measurements'] = list(m['measurements'])
    elif marg == 'empty':
        kw['measurements'] = []
    elif marg == 'none_explicit':
        kw['measurements'] = None
    if kn['time_step'] is not None:
        kw['time_step'] = float(kn['time_step'])
    kw['with_altitude'] = bool(kn['with_altitude'])
    return kw


def step_budget_for(sc, m):
    n_rows = len(sc['imu']['stamps'])
    n_ep = sum(len(s['stamps']) for s in sc['sensors'])
    # generous on purpose (today's code needs < 100 lines per row/epoch): a legitimate
    # refactoring may move vectorised work into Python helpers of pyins.filters, while a
    # loop that stopped advancing exceeds ANY finite budget
    return 2000 * (n_rows + n_ep + 2)


class RunOutcome:
    __slots__ = ('result', 'error', 'error_class', 'lines', 'kernel_calls', 'grow_events',
                 'kwargs')

    def __init__(self):
        self.result = None
        self.error = None
        self.error_class = None
        self.lines = 0
        self.kernel_calls = 0
        self.grow_events = 0
        self.kwargs = None


def reset_spies(m):
    for obj in m['measurements']:
        obj.spy_log.clear()
    m['delivery'].clear()


def run_feedback_first(sc, m, kw):
    """The OTHER filter first: a feedback run on the same data with the given (shared)
    sensor-model and measurement objects.  Not judged; it leaves non-zero estimates in the
    model objects, which the judged run must reset (documented: estimates are reset at the
    start of each run)."""
    kn = sc['knobs']
    sig = [float(s) * float(kn.get('error_scale', 1.0)) for s in kn['sigmas']]
    kw = dict(kw)
    kw.pop('increments', None)
    try:
        with InitialSize(kn.get('initial_size', 10000)), KernelShim(), \
                StepBudget(4 * step_budget_for(sc, m)):
            filters.run_feedback_filter(m['initial'], *sig, m['increments'], **kw)
    except Exception:
        pass


def run_prefix(sc, m, kw):
    """A run over the first half of the data with the given (shared) objects; its result is
    not judged, it only leaves whatever state it leaves in the caller's objects."""
    kn = sc['knobs']
    sig = [float(s) * float(kn.get('error_scale', 1.0)) for s in kn['sigmas']]
    kw = dict(kw)
    kw.pop('increments', None)
    try:
        with InitialSize(kn.get('initial_size', 10000)), KernelShim(), \
                StepBudget(4 * step_budget_for(sc, m)):
            if sc['filter'] == 'feedback':
                h = max(2, len(m['increments']) // 2)
                filters.run_feedback_filter(m['initial'], *sig, m['increments'].iloc[:h], **kw)
            else:
                h = max(3, len(m['computed']) // 2)
                if kn.get('increments_given', True):
                    kw['increments'] = m['increments_passed']
                filters.run_feedforward_filter(m['nominal'].iloc[:h], m['computed'].iloc[:h],
                                               *sig, **kw)
    except Exception:
        pass


def run_filter(sc, m, budget=None, reuse=None):
    """Run the real filter of scenario ``sc`` on materialised ``m`` under monitors.
    ``reuse``: keyword arguments of an earlier run (same model / measurement objects)."""
    kn = sc['knobs']
    kw = dict(reuse) if reuse is not None else filter_kwargs(sc, m)
    kw.pop('increments', None)
    scale = float(kn.get('error_scale', 1.0))
    sig = [float(s) * scale for s in kn['sigmas']]
    out = RunOutcome()
    out.kwargs = kw
    B = budget if budget is not None else step_budget_for(sc, m)
    with InitialSize(kn.get('initial_size', 10000)), KernelShim() as shim, \
            StepBudget(B) as sb:
        try:
            if sc['filter'] == 'feedback':
                out.result = filters.run_feedback_filter(
                    m['initial'], sig[0], sig[1], sig[2], sig[3], m['increments'], **kw)
            else:
                if kn.get('increments_given', True):
                    kw['increments'] = m['increments_passed']
                out.result = filters.run_feedforward_filter(
                    m['nominal'], m['computed'], sig[0], sig[1], sig[2], sig[3], **kw)
        except StepBudgetExceeded as e:
            out.error, out.error_class = str(e), 'step-budget'
        except KernelBoundsViolation as e:
            out.error, out.error_class = str(e), 'kernel-bounds'
        except MemoryError as e:  # pragma: no cover
            out.error, out.error_class = repr(e), 'no-result'
        except Exception as e:
            msg = str(e).splitlines()[0][:160] if str(e) else ''
            out.error, out.error_class = f"{type(e).__name__}: {msg}", 'no-result'
        out.lines = sb.count
        out.kernel_calls = shim.calls
        out.grow_events = shim.grow_events
    return out


# ------------------------------------------------------------- history-derived facts
def expected_stamps(sc, m):
    """Per sensor: the delivered stamps inside [t_start, t_end), ascending."""
    a, b = m['t_start'], m['t_end']
    out = []
    for s in sc['sensors']:
        st = np.asarray(s['stamps'], dtype=float)
        out.append(st[(st >= a) & (st < b)])
    return out


def signature(sc, m):
    """Interleaving signature: merged, time-sorted event tokens + knob regime."""
    kn = sc['knobs']
    if sc['filter'] == 'feedforward':
        rows = np.asarray(m['computed'].index, dtype=float)
    else:
        rows = np.asarray(sc['imu']['stamps'], dtype=float)
    ev = [(t, 0, 'I') for t in rows]
    for s in sc['sensors']:
        for t in s['stamps']:
            ev.append((t, 1, TOKEN[s['cls']]))
    ev.sort()
    toks = []
    i = 0
    while i < len(ev):
        j = i
        while j + 1 < len(ev) and ev[j + 1][0] == ev[i][0]:
            j += 1
        grp = ''.join(e[2] for e in ev[i:j + 1])
        toks.append(grp if len(grp) == 1 else '(' + grp + ')')
        i = j + 1
    comp = []
    for t in toks:
        if t == 'I' and comp and comp[-1] in ('I', 'I*'):
            comp[-1] = 'I*'
        else:
            comp.append(t)
    gaps = np.diff(rows)
    ts = kn['time_step']
    tsv = 0.1 if ts is None else ts
    if tsv < gaps.min():
        reg = 'below'
    elif tsv <= gaps.max():
        reg = 'inside'
    elif tsv <= rows[-1] - rows[0]:
        reg = 'above'
    else:
        reg = 'beyond'
    head = f"{sc['filter'][:4]}|{reg}|{'3d' if kn['with_altitude'] else '2d'}|" \
           f"{kn['measurements_arg']}|"
    return head + ''.join(comp)


def nontrivial(sc, m):
    """Something the repo's own two filter tests never have."""
    if sc['filter'] == 'feedforward':
        rows = np.asarray(m['computed'].index, dtype=float)
    else:
        rows = np.asarray(sc['imu']['stamps'], dtype=float)
    gaps = np.diff(rows)
    ts = sc['knobs']['time_step']
    tsv = 0.1 if ts is None else ts
    if tsv <= gaps.max():
        return True
    if gaps.max() > 1.5 * np.median(gaps):
        return True
    if sc['knobs']['measurements_arg'] != 'list':
        return True
    rowset = set(rows.tolist())
    seen = set()
    for s in sc['sensors']:
        for t in s['stamps']:
            if t not in rowset or t in seen or t <= rows[0] or t >= rows[-1]:
                return True
            seen.add(t)
    for a, b in zip(rows[:-1], rows[1:]):
        pass
    return False


def probes(sc, m, outcome=None):
    """Rare-condition probes computed from the scenario / shims only."""
    if sc['filter'] == 'feedforward':
        rows = np.asarray(m['computed'].index, dtype=float)
    else:
        rows = np.asarray(sc['imu']['stamps'], dtype=float)
    a, b = rows[0], rows[-1]
    hit = {}
    allst = []
    for s in sc['sensors']:
        st = np.asarray(s['stamps'], dtype=float)
        allst.append(st)
        if len(st) == 0:
            hit['empty_table'] = 1
    merged = np.unique(np.concatenate(allst)) if allst else np.empty(0)
    inside = merged[(merged >= a) & (merged < b)]
    if len(merged) and len(inside) == 0:
        hit['all_samples_lost'] = 1
    if len(inside):
        idx = np.searchsorted(rows, inside, side='right') - 1
        cnt = np.bincount(idx, minlength=len(rows))
        offgrid = np.array([t not in set(rows.tolist()) for t in inside])
        if (idx[offgrid] == len(rows) - 2).any() or (idx == len(rows) - 2).sum() >= 1:
            if (idx == len(rows) - 2).any():
                hit['sample_in_last_interval'] = 1
        if cnt.max() >= 3:
            hit['three_in_one_interval'] = 1
        if cnt.max() >= 2:
            hit['two_in_one_interval'] = 1
        if (idx == 0).sum() >= 2:
            hit['cluster_in_first_interval'] = 1
        if (idx == len(rows) - 2).sum() >= 2:
            hit['cluster_in_last_interval'] = 1
    if a in merged:
        hit['stamp_at_start'] = 1
    if b in merged:
        hit['stamp_at_end'] = 1
    tot = sum(len(x) for x in allst)
    if tot > len(merged):
        hit['shared_stamp'] = 1
    ts = sc['knobs']['time_step']
    tsv = 0.1 if ts is None else float(ts)
    nxt = rows[:-1] + tsv
    if (nxt < rows[1:]).any():
        hit['step_lands_below_next_row'] = 1
        g = np.diff(rows)
        if (np.abs(g - tsv) <= 1e-9 * np.abs(rows[1:])).any() and (nxt < rows[1:]).any():
            hit['rounding_makes_step_short'] = 1
    if ts is None:
        hit['default_time_step'] = 1
    if sc['knobs']['measurements_arg'] in ('none', 'empty'):
        hit['measurements_' + sc['knobs']['measurements_arg']] = 1
    if sc['knobs'].get('models_omitted'):
        hit['models_omitted'] = 1
    if outcome is not None and outcome.grow_events:
        hit['buffer_growth_inside_filter'] = 1
    if sc['filter'] == 'feedforward' and sc['knobs'].get('traj_subsample', 1) > 1:
        hit['rows_sparser_than_increments'] = 1
    if a < 0 < b:
        hit['clock_crosses_zero'] = 1
    g_ = np.diff(rows)
    if ((rows[:-1] + (rows[1:] - rows[:-1])) != rows[1:]).any():
        hit['a_plus_gap_rounds_off_next_stamp'] = 1
    rowset_ = set(rows.tolist())
    if any((t not in rowset_) and (np.nextafter(t, np.inf) in rowset_ or
                                   np.nextafter(t, -np.inf) in rowset_) for t in merged):
        hit['stamp_one_ulp_from_epoch'] = 1
    if any(s_.get('row_order_seed') is not None for s_ in sc['sensors']):
        hit['measurement_table_not_sorted_by_time'] = 1
    if sc['knobs'].get('increments_dropout'):
        hit['interval_without_increment_rows'] = 1
    if sc['knobs'].get('imu_zero_fill'):
        hit['increment_rows_exactly_zero'] = 1
    if sc['knobs'].get('nominal') == 'constant_attitude':
        hit['nominal_attitude_identical_in_consecutive_rows'] = 1
    if abs(a) >= 1e5:
        hit['gps_week_scale_clock'] = 1
    if a < 0:
        hit['negative_clock'] = 1
    return hit


def fault_counts(sc):
    out = {}
    for f in sc['faults']:
        out[f['kind']] = out.get(f['kind'], 0) + 1
    return out


def sim_seconds(sc):
    st = sc['imu']['stamps']
    return float(st[-1] - st[0])


def finite_table(df):
    return bool(np.isfinite(np.asarray(df.to_numpy(), dtype=float)).all())


def strictly_increasing(idx):
    idx = np.asarray(idx, dtype=float)
    return bool((np.diff(idx) > 0).all())


def is_subset(idx, of):
    s = set(np.asarray(of, dtype=float).tolist())
    return all(t in s for t in np.asarray(idx, dtype=float).tolist())


def is_nan_safe(x):
    return isinstance(x, float) and math.isnan(x)
