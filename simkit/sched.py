"""History oracles for the two filter event loops (C09, C10) and the 2-D invariant
monitor for filter runs (C13).  Everything is derived from the explicit scenario
(time stamps delivered by the simulator) and the spies' delivery log — never from pyins
internals."""
from . import env  # noqa: F401
import numpy as np
import pandas as pd

from .monitors import same_bits, digest


def same_times(a, b):
    """Time stamps are compared as NUMBERS (-0.0 == 0.0: np.unique may keep either zero),
    element by element, shapes included."""
    a = np.asarray(a, dtype=float)
    b = np.asarray(b, dtype=float)
    return a.shape == b.shape and bool((a == b).all())
from . import fworld as FW

SD_TABLES = ['trajectory_sd', 'gyro', 'gyro_sd', 'accel', 'accel_sd']


def V(cls, detail, key=None):
    return {'class': cls, 'detail': detail, 'key': key or cls}


def _fmt(ts, n=6):
    ts = list(ts)
    s = ', '.join(repr(float(t)) for t in ts[:n])
    return '[' + s + (', ...' if len(ts) > n else '') + f'] (n={len(ts)})'


def check_outcome_error(prop, sc, out):
    """Violations for 'did not return': exception, step budget, kernel bounds."""
    if out.error_class is None:
        return []
    kn = sc['knobs']
    etype = out.error.split(':')[0] if out.error_class == 'no-result' else out.error_class
    key = f"{out.error_class}/{etype}/meas={kn['measurements_arg']}"
    if sc['filter'] == 'feedback' and out.error_class == 'no-result' and \
            FW.fixes_in_long_gap(sc) >= 3:
        # the input class of known finding F9 (see KNOWN_FINDINGS.txt)
        key = 'divergence/several-fixes-inside-a-long-imu-gap'
    return [V(out.error_class, f"{sc['filter']} filter did not return: {out.error}", key)]


def check_spies(sc, m, out, expected):
    """Exactly-once, in time order, from the delivery log of the spies."""
    viol = []
    seq = [t for (t, _c) in m['delivery']]
    if any(b < a for a, b in zip(seq[:-1], seq[1:])):
        k = next(i for i, (a, b) in enumerate(zip(seq[:-1], seq[1:])) if b < a)
        viol.append(V('sample-exactly-once',
                      f"samples are not used in time order across sensors: "
                      f"{m['delivery'][k][1]} sample {m['delivery'][k][0]!r} was used before "
                      f"{m['delivery'][k + 1][1]} sample {m['delivery'][k + 1][0]!r}",
                      'sample-exactly-once/cross-sensor-order'))
    for s, obj, exp in zip(sc['sensors'], m['measurements'], expected):
        used = [t for (t, shp) in obj.spy_log if shp is not None]
        if not same_times(used, exp):
            exp_l = exp.tolist()
            missing = [t for t in exp_l if t not in used]
            dup = sorted({t for t in used if used.count(t) > 1})
            extra = [t for t in used if t not in exp_l]
            what = []
            if missing:
                what.append(f"never used {_fmt(missing)}")
            if dup:
                what.append(f"used more than once {_fmt(dup)}")
            if extra:
                what.append(f"used although outside [start,end) {_fmt(extra)}")
            if not what:
                what.append(f"used out of time order {_fmt(used)}")
            kind = 'dropped' if missing else ('reused' if dup else
                                              ('outside' if extra else 'order'))
            viol.append(V('sample-exactly-once',
                          f"{s['cls']}: " + '; '.join(what) +
                          f"; delivered in-span {_fmt(exp_l)}",
                          f"sample-exactly-once/{kind}"))
    return viol


def check_c09(sc, m, out):
    viol = check_outcome_error('C09', sc, out)
    if viol:
        return viol
    res = out.result
    inc_idx = np.asarray(m['increments'].index, dtype=float)
    want = np.r_[m['t_start'], inc_idx]
    got = np.asarray(res.trajectory.index, dtype=float)
    if not same_times(got, want):
        if len(got) != len(want):
            d = f"trajectory has {len(got)} rows, expected {len(want)}"
        else:
            k = int(np.nonzero(got != want)[0][0])
            d = f"trajectory time #{k} is {float(got[k])!r}, expected {float(want[k])!r}"
        dups = len(got) - len(np.unique(got))
        viol.append(V('imu-conservation',
                      d + f" ({dups} duplicated time(s), "
                          f"{len(set(want.tolist()) - set(got.tolist()))} missing)",
                      'imu-conservation'))
    if not FW.finite_table(res.trajectory):
        viol.append(V('nonfinite', "trajectory contains non-finite values",
                      'divergence/several-fixes-inside-a-long-imu-gap'
                      if FW.fixes_in_long_gap(sc) >= 3 else 'nonfinite/trajectory'))
    expected = FW.expected_stamps(sc, m)
    if sc['knobs']['measurements_arg'] == 'list':
        for s, exp in zip(sc['sensors'], expected):
            name = s['cls']
            inn = res.innovations.get(name)
            if not isinstance(inn, pd.DataFrame):
                viol.append(V('innovation-exactly-once',
                              f"no innovations table for {name}",
                              'innovation-exactly-once/missing-table'))
                continue
            gi = np.asarray(inn.index, dtype=float)
            if not same_times(gi, exp):
                kind = ('dropped' if len(gi) < len(exp) else
                        'extra' if len(gi) > len(exp) else 'stamp')
                viol.append(V('innovation-exactly-once',
                              f"{name}: innovation rows stamped {_fmt(gi)} but samples "
                              f"delivered in [start,end) are {_fmt(exp)}",
                              f"innovation-exactly-once/{kind}"))
            elif not FW.finite_table(inn):
                viol.append(V('nonfinite', f"innovations[{name}] not finite",
                              'nonfinite/innovations'))
        viol += check_spies(sc, m, out, expected)
    tidx = got
    for name in SD_TABLES:
        tab = getattr(res, name)
        idx = np.asarray(tab.index, dtype=float)
        if not FW.strictly_increasing(idx):
            viol.append(V('tables', f"{name} index is not strictly increasing",
                          'tables/not-increasing'))
        elif not FW.is_subset(idx, tidx):
            viol.append(V('tables', f"{name} index is not a subset of trajectory times",
                          'tables/not-subset'))
        if tab.size and not FW.finite_table(tab):
            viol.append(V('nonfinite', f"{name} contains non-finite values",
                          f'nonfinite/{name}'))
    return viol


def check_c10(sc, m, out):
    viol = check_outcome_error('C10', sc, out)
    if viol:
        return viol
    res = out.result
    times = np.asarray(m['computed'].index, dtype=float)
    kn = sc['knobs']
    ts = 0.1 if kn['time_step'] is None else float(kn['time_step'])
    tables = ['trajectory'] + SD_TABLES
    seen = []
    for name in tables:
        # every table on its own: a strictly increasing subset of the input times that
        # starts at the first one and never steps too far (tables normally share one index;
        # identical indices are checked once)
        g = np.asarray(getattr(res, name).index, dtype=float)
        if any(same_times(g, h) for h in seen):
            continue
        seen.append(g)
        if len(g) == 0 or g[0] != times[0]:
            viol.append(V('grid', f"{name}: grid does not start at the first input time "
                                  f"({g[:1].tolist()} vs {float(times[0])!r})", 'grid/start'))
        if not FW.strictly_increasing(g):
            k = int(np.nonzero(np.diff(g) <= 0)[0][0])
            viol.append(V('grid', f"{name}: grid not strictly increasing: time "
                                  f"{float(g[k])!r} followed by {float(g[k + 1])!r}",
                          'grid/not-increasing'))
        elif not FW.is_subset(g, times):
            viol.append(V('grid', f"{name}: grid is not a subset of the input times",
                          'grid/not-subset'))
        else:
            pos = np.searchsorted(times, g)
            for a, b, ia, ib in zip(g[:-1], g[1:], pos[:-1], pos[1:]):
                if not (b <= a + ts or ib == ia + 1):
                    viol.append(V('step-length',
                                  f"{name}: grid steps from {float(a)!r} to {float(b)!r} "
                                  f"(> time_step {ts!r} and {ib - ia} rows ahead)",
                                  'step-length'))
                    break
            else:
                # the last step (to the end of the data) obeys the same bound: the tables
                # may not silently stop early
                if len(g) and not (times[-1] <= g[-1] + ts or pos[-1] >= len(times) - 2):
                    viol.append(V('step-length',
                                  f"{name}: grid stops at {float(g[-1])!r}, "
                                  f"{len(times) - 1 - int(pos[-1])} rows and more than "
                                  f"time_step {ts!r} before the last input time "
                                  f"{float(times[-1])!r}", 'step-length/end'))
    for name in tables:
        tab = getattr(res, name)
        if tab.size and not FW.finite_table(tab):
            viol.append(V('nonfinite', f"{name} contains non-finite values",
                          f'nonfinite/{name}'))
    expected = FW.expected_stamps(sc, m)
    if kn['measurements_arg'] == 'list':
        viol += check_spies(sc, m, out, expected)
        for s, exp in zip(sc['sensors'], expected):
            name = s['cls']
            inn = res.innovations.get(name)
            if not isinstance(inn, pd.DataFrame):
                viol.append(V('innovation-rows', f"no innovations table for {name}",
                              'innovation-rows/missing-table'))
                continue
            if len(inn) != len(exp):
                viol.append(V('innovation-rows',
                              f"{name}: {len(inn)} innovation rows for {len(exp)} "
                              f"in-span samples", 'innovation-rows/count'))
            elif len(inn):
                gi = np.asarray(inn.index, dtype=float)
                if (np.diff(gi) < 0).any():
                    viol.append(V('innovation-rows', f"{name}: innovation index decreases",
                                  'innovation-rows/order'))
                if not FW.finite_table(inn):
                    viol.append(V('nonfinite', f"innovations[{name}] not finite",
                                  'nonfinite/innovations'))
    return viol


def check_c13_filter(sc, m, out):
    """2-D invariants on a filter run (with_altitude False)."""
    viol = []
    if sc['knobs']['measurements_arg'] == 'list':
        # shapes of every model the filter was handed (also when it then failed)
        for s, obj in zip(sc['sensors'], m['measurements']):
            want_rows = 3 if s['cls'] == 'BodyVelocity' else 2
            for (t, shp) in obj.spy_log:
                if shp is None:
                    continue
                zs, hs, rs = shp
                if zs != (want_rows,) or hs != (want_rows, 7) or rs != (want_rows,
                                                                        want_rows):
                    viol.append(V('meas-rows',
                                  f"{s['cls']} at t={t!r}: z{zs} H{hs} R{rs}, expected "
                                  f"{want_rows} rows and 7 columns", 'filter/meas-rows'))
                    break
    if out.error_class is not None:
        return viol          # 'did not return' itself belongs to C09/C10
    res = out.result
    if sc['filter'] == 'feedback':
        tr = res.trajectory
        vd = tr['VD'].to_numpy()
        if not (vd == 0.0).all():
            k = int(np.nonzero(vd != 0.0)[0][0])
            viol.append(V('vd-nonzero', f"feedback trajectory row {k} "
                                        f"(t={tr.index[k]!r}) has VD={vd[k]!r}",
                          'filter/vd-nonzero'))
        alt0 = float(m['initial']['alt'])
        alt = tr['alt'].to_numpy()
        if not (alt == alt0).all():
            k = int(np.nonzero(alt != alt0)[0][0])
            viol.append(V('alt-moved', f"feedback trajectory row {k} (t={tr.index[k]!r}) "
                                       f"has alt={alt[k]!r}, supplied {alt0!r}",
                          'filter/alt-moved'))
    sd = res.trajectory_sd
    for col in ('down', 'VD'):
        x = sd[col].to_numpy()
        if not (x == 0.0).all():
            k = int(np.nonzero(x != 0.0)[0][0])
            viol.append(V('sd-nonzero', f"{sc['filter']} trajectory_sd.{col} row {k} is "
                                        f"{x[k]!r}, must be exactly 0", 'filter/sd-nonzero'))
    if sc['knobs']['measurements_arg'] == 'list':
        for s, obj in zip(sc['sensors'], m['measurements']):
            want_rows = 3 if s['cls'] == 'BodyVelocity' else 2
            inn = res.innovations.get(s['cls'])
            if isinstance(inn, pd.DataFrame) and len(inn) and inn.shape[1] != want_rows:
                viol.append(V('meas-rows', f"innovations[{s['cls']}] has "
                                           f"{inn.shape[1]} columns, expected {want_rows}",
                              'filter/innovation-width'))
    return viol


def result_digest(sc, m, out):
    parts = [out.error_class, out.error]
    if out.result is not None:
        r = out.result
        for name in ['trajectory'] + SD_TABLES:
            parts.append(getattr(r, name))
        parts.append({k: v for k, v in r.innovations.items()})
    for obj in m['measurements']:
        parts.append([(t, None if s is None else [list(x) for x in s])
                      for (t, s) in obj.spy_log])
    return digest(*parts)
