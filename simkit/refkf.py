"""One-shot (non-recursive) Gauss-Markov reference estimator for the feedforward filter.

Independent of ``pyins.filters`` and ``pyins.kalman``.  The linear model is *defined* by
the public pieces the property names — ``InsErrorModel.system_matrices``,
``transform_to_internal/_to_output`` and ``Measurement.compute_matrices`` — which are
used as given (their correctness belongs to C04-C06); everything else is own code:

* sensor state layout rebuilt from the EstimationModel *parameters* (bias per enabled
  axis, then scale/misalignment row-major), matched to result columns by name;
* own scaled-Taylor matrix exponential, process noise by 20-point Gauss-Legendre
  quadrature of  int_0^D e^{Fs} Qc e^{F's} ds  (not Van Loan, not scipy expm);
* own quaternion code for the attitude interpolation rule of the model (weighted chordal
  mean of the two bracketing attitudes, linear position/velocity);
* estimator: the prior Gauss-Markov process is described by its covariances
  Pi_k (Pi_{k+1} = Phi_k Pi_k Phi_k' + Qd_k) and cross-covariances
  Cov(x_k, x_j) = Phi(k<-j) Pi_j; the estimate at grid point k conditions on ALL
  measurement blocks up to k at once by the Gaussian conditioning formula on the joint
  covariance of the stacked observation vector (dense covariance form
  x^ = C_xZ S^-1 Z, P = Pi_k - C_xZ S^-1 C_xZ'; no predict/correct recursion, no gain,
  no Joseph update); the normalised innovation of block j conditions on blocks < j.
  (A first version whitened P0/Qd into factors; factoring Qd is ill-posed because its
  weakly driven entries are below rounding level, so the covariance form is used.)
"""
from . import env  # noqa: F401
import numpy as np
import pandas as pd

from pyins import error_model as em
from pyins.util import TRAJECTORY_COLS, THETA_COLS, DV_COLS

from . import world as W

_GL_X, _GL_W = np.polynomial.legendre.leggauss(20)


class ModelUnavailable(Exception):
    """compute_matrices answered None for a sample that is in the measurement's table."""


# ----------------------------------------------------------------- small numerics
def expm_taylor(A):
    """exp(A) by scaling and squaring with an order-18 Taylor series (own code)."""
    nrm = np.abs(A).sum(axis=0).max() if A.size else 0.0
    s = 0
    if nrm > 0.25:
        s = int(np.ceil(np.log2(nrm / 0.25)))
    B = A / (2.0 ** s)
    E = np.eye(len(A))
    term = np.eye(len(A))
    for k in range(1, 19):
        term = term @ B / k
        E = E + term
    for _ in range(s):
        E = E @ E
    return E


def discretize(F, Qc, dt):
    Phi = expm_taylor(F * dt)
    Qd = np.zeros_like(F)
    if dt > 0 and np.any(Qc):
        for x, w in zip(_GL_X, _GL_W):
            s = 0.5 * dt * (x + 1.0)
            E = expm_taylor(F * s)
            Qd += (0.5 * dt * w) * (E @ Qc @ E.T)
    return Phi, 0.5 * (Qd + Qd.T)


def psd_factor(M):
    """L with L L' = M for symmetric PSD M.

    Scale invariant: the matrix is normalised to a correlation matrix first, so that
    states of very different magnitude (1e4 m^2 position next to 1e-12 (rad/s)^2 bias)
    keep their own directions; numerically-zero correlation directions are dropped.
    """
    n = len(M)
    if M.size == 0:
        return np.zeros((n, 0))
    M = 0.5 * (M + M.T)
    d = np.sqrt(np.maximum(np.diag(M), 0.0))
    live = d > 0
    if not live.any():
        return np.zeros((n, 0))
    dl = d[live]
    Cm = M[np.ix_(live, live)] / np.outer(dl, dl)
    w, Vv = np.linalg.eigh(Cm)
    keep = w > 1e-13
    L = np.zeros((n, int(keep.sum())))
    L[live] = (Vv[:, keep] * np.sqrt(w[keep])) * dl[:, None]
    return L


def rph_from_mat(C):
    pitch = -np.arcsin(np.clip(C[2, 0], -1.0, 1.0))
    roll = np.arctan2(C[2, 1], C[2, 2])
    heading = np.arctan2(C[1, 0], C[0, 0])
    return np.rad2deg([roll, pitch, heading])


def interp_pva(a, b, alpha):
    """The model's interpolation rule: linear position/velocity, weighted chordal mean
    of the two attitudes (largest eigenvector of the weighted quaternion outer products).
    """
    av = a[TRAJECTORY_COLS].to_numpy(dtype=float)
    bv = b[TRAJECTORY_COLS].to_numpy(dtype=float)
    q1 = W.quat_from_rph(*av[6:9])
    q2 = W.quat_from_rph(*bv[6:9])
    M = (1.0 - alpha) * np.outer(q1, q1) + alpha * np.outer(q2, q2)
    _, vec = np.linalg.eigh(M)
    q = vec[:, -1]
    rph = rph_from_mat(W.quat_to_mat(q / np.sqrt(q @ q)))
    out = np.empty(9)
    out[:6] = (1.0 - alpha) * av[:6] + alpha * bv[:6]
    out[6:] = rph
    return pd.Series(out, index=TRAJECTORY_COLS)


# ------------------------------------------------------------- sensor state layout
def _vec3(v):
    if v is None:
        return np.zeros(3)
    v = np.asarray(v, dtype=float)
    return np.full(3, float(v)) if v.ndim == 0 else v.astype(float)


def _mat33(v):
    if v is None:
        return np.zeros((3, 3))
    v = np.asarray(v, dtype=float)
    return np.full((3, 3), float(v)) if v.ndim == 0 else v.astype(float)


def sensor_layout(params):
    """names [(kind, i, j)], P0 diagonal, walk PSD per state, white noise per axis."""
    if params is None:
        params = {}
    bias_sd = _vec3(params.get('bias_sd'))
    noise = _vec3(params.get('noise'))
    walk = _vec3(params.get('bias_walk'))
    sm = _mat33(params.get('scale_misal_sd'))
    names, p0, wq = [], [], []
    for i in range(3):
        if bias_sd[i] > 0:
            names.append(('bias', i, None))
            p0.append(bias_sd[i] ** 2)
            wq.append(walk[i] ** 2 if walk[i] > 0 else 0.0)
    for i in range(3):
        for j in range(3):
            if sm[i, j] > 0:
                names.append(('sm', i, j))
                p0.append(sm[i, j] ** 2)
                wq.append(0.0)
    return names, np.array(p0), np.array(wq), np.where(noise > 0, noise, 0.0)


def out_matrix(names, reading):
    H = np.zeros((3, len(names)))
    for c, (k, i, j) in enumerate(names):
        if k == 'bias':
            H[i, c] = 1.0
        else:
            H[i, c] = reading[j]
    return H


def label(n):
    k, i, j = n
    return f"bias_{'xyz'[i]}" if k == 'bias' else f"sm_{'xyz'[i]}{'xyz'[j]}"


# ------------------------------------------------------------------ the estimator
def reference_estimate(nominal, computed, sigmas, gyro_params, accel_params, meas_objs,
                       increments, grid, assoc, with_altitude):
    """
    nominal/computed : the trajectories handed to the filter (same index)
    grid             : the filter's time grid (observed, C10 guarantees its shape)
    assoc            : [(grid_time, meas_time, meas_obj)] in processing order
    Returns xs (K,n), Ps (K,n,n), innovations [(class name, grid_time, vector)],
    gyro labels, accel labels.
    """
    model = em.InsErrorModel(with_altitude)
    ni = model.n_states
    gn, gp0, gwq, gnoise = sensor_layout(gyro_params)
    an, ap0, awq, anoise = sensor_layout(accel_params)
    ng, na = len(gn), len(an)
    n = ni + ng + na
    pos_sd, vel_sd, level_sd, az_sd = sigmas
    Ppva = np.diag([pos_sd ** 2] * 3 + [vel_sd ** 2] * 3 + [level_sd ** 2] * 2 +
                   [az_sd ** 2])
    T = model.transform_to_internal(nominal.iloc[0])
    P0 = np.zeros((n, n))
    P0[:ni, :ni] = T @ Ppva @ T.T
    P0[ni:ni + ng, ni:ni + ng] = np.diag(gp0)
    P0[ni + ng:, ni + ng:] = np.diag(ap0)
    times = np.asarray(nominal.index, dtype=float)
    inc_t = None if increments is None else np.asarray(increments.index, dtype=float)
    if increments is not None:
        th = increments[THETA_COLS].to_numpy()
        dv = increments[DV_COLS].to_numpy()

    # prior (unconditioned) process: covariances Pi_k and transitions Phi_k.  This is the
    # definition of the Gauss-Markov prior, not an estimator recursion.
    K = len(grid)
    Pi = [P0]
    Phis = []
    for k in range(K - 1):
        t0, t1 = grid[k], grid[k + 1]
        dt = t1 - t0
        pm = interp_pva(nominal.loc[t0], nominal.loc[t1], 0.5)
        Fii, Fig, Fia = model.system_matrices(pm)
        if increments is not None:
            sel = (inc_t > t0) & (inc_t <= t1)
            gavg = th[sel].sum(axis=0) / dt
            aavg = dv[sel].sum(axis=0) / dt
        else:
            gavg = aavg = np.zeros(3)
        F = np.zeros((n, n))
        F[:ni, :ni] = Fii
        F[:ni, ni:ni + ng] = Fig @ out_matrix(gn, gavg)
        F[:ni, ni + ng:] = Fia @ out_matrix(an, aavg)
        Qc = np.zeros((n, n))
        Qc[:ni, :ni] = (Fig @ np.diag(gnoise ** 2) @ Fig.T +
                        Fia @ np.diag(anoise ** 2) @ Fia.T)
        Qc[ni:ni + ng, ni:ni + ng] = np.diag(gwq)
        Qc[ni + ng:, ni + ng:] = np.diag(awq)
        Phi, Qd = discretize(F, Qc, dt)
        Phis.append(Phi)
        Pn = Phi @ Pi[-1] @ Phi.T + Qd
        Pi.append(0.5 * (Pn + Pn.T))
    gidx = {float(t): i for i, t in enumerate(grid)}

    def trans(k, j):
        """Phi(k <- j), j <= k."""
        M = np.eye(n)
        for i in range(j, k):
            M = Phis[i] @ M
        return M
    tcache = {}

    def cov_x(k, j):
        """Cov(x_k, x_j) of the prior process."""
        if (k, j) not in tcache:
            if k >= j:
                tcache[(k, j)] = trans(k, j) @ Pi[j]
            else:
                tcache[(k, j)] = cov_x(j, k).T
        return tcache[(k, j)]

    info = []
    for (gt, mt, mobj) in assoc:
        # pva interpolated between the two input rows that bracket the sample
        i2 = int(np.searchsorted(times, mt, side='right') - 1)
        i2 = min(max(i2, 0), len(times) - 2)
        alpha = (mt - times[i2]) / (times[i2 + 1] - times[i2])
        pva = interp_pva(computed.iloc[i2], computed.iloc[i2 + 1], alpha)
        ret = mobj.compute_matrices(mt, pva, model)
        if ret is None:
            raise ModelUnavailable(type(mobj).__name__, float(mt))
        z, H, R = ret
        z = np.asarray(z, dtype=float)
        Hf = np.zeros((len(z), n))
        Hf[:, :ni] = H
        info.append((gidx[float(gt)], gt, mobj, Hf, np.asarray(R, dtype=float), z))
    offs = np.cumsum([0] + [len(b[5]) for b in info])
    nz = int(offs[-1])
    # joint covariance of the stacked observation vector Z and Z itself
    S = np.zeros((nz, nz))
    Z = np.zeros(nz)
    for a, (ia, _, _, Ha, Ra, za) in enumerate(info):
        Z[offs[a]:offs[a + 1]] = za
        for b in range(a + 1):
            ib, Hb = info[b][0], info[b][3]
            blk = Ha @ cov_x(ia, ib) @ Hb.T
            if a == b:
                blk = blk + Ra
            S[offs[a]:offs[a + 1], offs[b]:offs[b + 1]] = blk
            S[offs[b]:offs[b + 1], offs[a]:offs[a + 1]] = blk.T
    S = 0.5 * (S + S.T)

    def condition(k, nblocks):
        """mean and covariance of x_k given the first nblocks blocks, in one shot."""
        if nblocks == 0:
            return np.zeros(n), Pi[k]
        m_ = int(offs[nblocks])
        C = np.zeros((n, m_))
        for a in range(nblocks):
            ia, Ha = info[a][0], info[a][3]
            C[:, offs[a]:offs[a + 1]] = cov_x(k, ia) @ Ha.T
        Ls = np.linalg.cholesky(S[:m_, :m_])
        Wm = np.linalg.solve(Ls, C.T)
        v = np.linalg.solve(Ls, Z[:m_])
        P = Pi[k] - Wm.T @ Wm
        return Wm.T @ v, 0.5 * (P + P.T)

    innov = []
    for j, (ia, gt, mobj, Hf, R, z) in enumerate(info):
        xp, Pp = condition(ia, j)
        Sj = Hf @ Pp @ Hf.T + R
        L = np.linalg.cholesky(0.5 * (Sj + Sj.T))
        innov.append((type(mobj).__name__, gt, np.linalg.solve(L, z - Hf @ xp)))

    xs, Ps = [], []
    for k in range(K):
        nb = sum(1 for b in info if b[0] <= k)
        xk, Pk = condition(k, nb)
        xs.append(xk)
        Ps.append(Pk)
    return (np.array(xs), np.array(Ps), innov, [label(x) for x in gn],
            [label(x) for x in an])
