"""C13 — no-altitude mode keeps altitude frozen and vertical velocity zero.

An invariant monitor attached to runs that already exist, with with_altitude=False
forced: (a) the C02 call-history machine, (b) the C09 feedback world, (c) the C10
feedforward world (sd rows and measurement shapes).
"""
from . import env  # noqa: F401
from . import hist
from . import fworld as FW
from . import sched
from .shrink import shrink_filter_scenario

PROP = 'C13'
LEVEL = 'exploration'
TIERS = {'quick': dict(runs=2400, budget_s=150, chunk=24, selftest=6),
         'thorough': dict(runs=200000, budget_s=1500, chunk=96, selftest=16)}


def _force_2d_filter(run_seed, filt):
    r_seed = int(run_seed)
    for k in range(64):
        sc = FW.generate(r_seed + k, filt, 'sched')
        sc['knobs']['with_altitude'] = False
        if (r_seed + k) % 3 == 0:
            # a coarse initial fix: position sigma and error of 0.1 - 1 km
            f = 10.0 ** (2.0 + ((r_seed + k) % 1000) / 1000.0) / sc['knobs']['sigmas'][0]
            sc['knobs']['sigmas'][0] *= f
            sc['knobs']['init_err'][:3] = [x * f for x in sc['knobs']['init_err'][:3]]
            sc['faults'].append(dict(kind='coarse_initial_position', factor=float(f)))
        if (r_seed + k) % 5 == 1:
            sc['knobs']['state_labels'] = 'permuted'
        for j, sen in enumerate(sc['sensors']):
            # the caller's measurement table with its columns in another order / with
            # extra columns (tables are addressed by label)
            sen['table_form'] = [None, 'reversed', 'rotated', 'wide'][(r_seed + k + j) % 4]
        try:
            if FW.materialise(sc, fence_only=True)['in_fence']:
                return sc
        except Exception:
            pass
    raise RuntimeError("no 2-D world inside the fence")

# second, independent generator (simkit/hyp.py): (processes, examples per process) per tier
HYP = dict(want='C13', force_2d=True, quick=(16, 120), thorough=(16, 4000))


def generate(run_seed, tier, index):
    # 3 of 4 runs are integrator call histories, 1 of 4 a filter run (alternating kind)
    k = index % 8
    if k == 3:
        return _force_2d_filter(run_seed, 'feedback')
    if k == 7:
        return _force_2d_filter(run_seed, 'feedforward')
    return hist.generate(run_seed, force_2d=True)


def execute(sc):
    if sc['kind'] == 'history':
        _v02, v13, st, dg = hist.execute(sc, want='C13')
        probes = {'history_runs': 1}
        if st['set_pva']:
            probes['overwrite_then_integrate'] = 1
        if sc['perturb']['vertical'] != 0.0:
            probes['large_vertical_specific_force'] = 1
        if st['predicts']:
            probes['predict_rows_checked'] = 1
        return dict(violations=v13, digest=dg, sig='H|' + st['sig'],
                    nontrivial=bool(st['rows'] or st['predicts']), probes=probes,
                    faults={'state_overwrite_nonzero_VD': st['set_pva'],
                            'vertical_force_injected': int(sc['perturb']['vertical'] != 0)},
                    sim_s=float(sc['imu']['stamps'][-1] - sc['imu']['stamps'][0]),
                    ops=st['ops'], extra=dict(rows_checked=st['rows'] + st['predicts']))
    m = FW.materialise(sc)
    out = FW.run_filter(sc, m)
    viol = sched.check_c13_filter(sc, m, out)
    probes = {sc['filter'] + '_filter_runs': 1}
    if any(sen.get('table_form') for sen in sc['sensors']):
        probes['measurement_table_columns_reordered_or_extra'] = 1
    if sc['knobs'].get('state_labels') == 'permuted':
        probes['initial_pva_or_trajectory_labels_permuted'] = 1
    if not viol and out.error_class is None and \
            any(sen['cls'] == 'NedVelocity' and sen['stamps'] for sen in sc['sensors']):
        # "NED-velocity measurement models drop their vertical row": a twin run in which
        # the MEASURED vertical velocity is replaced by other numbers must give
        # bit-identical results
        import copy
        twin = copy.deepcopy(sc)
        for sen in twin['sensors']:
            sen['vertical_scramble'] = ['nan', True][sc.get('run_seed', 0) % 2]
        m2 = FW.materialise(twin)
        out2 = FW.run_filter(twin, m2)
        probes['vertical_measurement_scrambled_twin'] = 1
        if out2.error_class is not None:
            viol.append(sched.V('vertical-row-used', "the twin run with scrambled measured VD "
                                f"did not return: {out2.error}", 'filter/vertical-row-used'))
        else:
            for name in ['trajectory'] + sched.SD_TABLES:
                a, b = getattr(out.result, name), getattr(out2.result, name)
                if a.shape != b.shape or not sched.same_bits(a.to_numpy(), b.to_numpy()):
                    viol.append(sched.V(
                        'vertical-row-used',
                        f"{sc['filter']} filter: replacing the measured vertical velocity of "
                        f"the NedVelocity samples changes {name} - the 2-D model does not "
                        f"drop the vertical row", 'filter/vertical-row-used'))
                    break
    n_used = 0
    for s, obj in zip(sc['sensors'], m['measurements']):
        k = sum(1 for (_t, shp) in obj.spy_log if shp is not None)
        n_used += k
        if k:
            probes['meas_' + s['cls']] = 1
    if out.error_class is not None:
        probes['filter_did_not_return'] = 1
    return dict(violations=viol, digest=sched.result_digest(sc, m, out),
                sig='F|' + FW.signature(sc, m), nontrivial=out.error_class is None,
                probes=probes, faults=FW.fault_counts(sc), sim_s=FW.sim_seconds(sc),
                ops=len(sc['imu']['stamps']) - 1 + n_used,
                extra=dict(measurement_models_checked=n_used))


def shrink(sc, vclass):
    def pred(c):
        return any(v['class'] == vclass for v in execute(c)['violations'])
    if sc['kind'] == 'history':
        return hist.shrink(sc, pred)
    return shrink_filter_scenario(sc, pred)


def sample_view(sc):
    if sc['kind'] == 'history':
        from . import c02
        return dict(kind='history', **c02.sample_view(sc))
    from . import c09
    return dict(kind='filter:' + sc['filter'], **c09.sample_view(sc))


PROBES_WANTED = ['history_runs', 'overwrite_then_integrate', 'large_vertical_specific_force',
                 'predict_rows_checked', 'feedback_filter_runs', 'feedforward_filter_runs',
                 'meas_Position', 'meas_NedVelocity', 'meas_BodyVelocity',
                 'measurement_table_columns_reordered_or_extra',
                 'vertical_measurement_scrambled_twin',
                 'initial_pva_or_trajectory_labels_permuted']


def describe():
    return dict(
        rule=("with_altitude=False forced. 6 of 8 runs: seeded call histories on the REAL "
              "Integrator (as C02: chunks, predicts, set_pva with non-zero VD and other "
              "altitude, large vertical specific force) - every row appended by integrate "
              "or returned by predict must have VD == 0.0 and alt == the altitude most "
              "recently supplied. 2 of 8 runs: the C09/C10 sensor world through the REAL "
              "feedback / feedforward filter - feedback trajectory VD == 0 and alt == "
              "initial alt in every row, trajectory_sd.down and .VD exactly 0, spy log shows "
              "2-row Position/NedVelocity and 3-row BodyVelocity models with 7 columns; "
              "measurement tables also with reordered / extra columns; a metamorphic twin run "
              "with the measured vertical velocity replaced must be bit-identical. "
              "Non-trivial = produced at least one checked row. distinct = distinct "
              "history / interleaving signatures."),
        real=['pyins.strapdown.Integrator + numba kernel', 'pyins.filters (both filters)',
              'pyins.error_model.InsErrorModel (2-D reduction, correct_pva)',
              'pyins.measurements (via spy subclasses)', 'pyins.kalman'],
        stub=['motion, IMU/aiding devices and clocks, fault injector, overwriting states'],
        assumptions=[
            "Sampling, not enumeration.",
            "Exact comparison is sound: the kernel computes alt - 0.0*dt, corrections add "
            "-0.0 and the sd rows are products with an exactly-zero matrix row.",
            "A filter run that does not return is C09/C10's business and is not a C13 "
            "verdict (counted as probe filter_did_not_return)."],
        probes_wanted=PROBES_WANTED)
