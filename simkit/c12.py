"""C12 — feedback filter: transparent without data, first-order equal to feedforward,
re-runs with the same model objects reproduce identical results.

Three run families (sub-checks), mixed in every batch:

(T) transparency under total measurement loss  -> bit-identical to plain integration
(R) run-history machine over shared model objects -> equal to isolated fresh-object runs
(F) feedback vs feedforward over an error-scale ladder s in {1, 0.1, 0.01}
"""
from . import env  # noqa: F401
import copy
import os

import numpy as np

from pyins import filters, strapdown

from . import fworld as FW
from . import sched
from . import world as W
from .monitors import (digest, same_bits, InitialSize, KernelShim, StepBudget,
                       StepBudgetExceeded, KernelBoundsViolation)
from .shrink import shrink_filter_scenario, ddmin_list
from pyins.util import VEL_COLS, RPH_COLS

PROP = 'C12'
LEVEL = 'exploration'
TIERS = {'quick': dict(runs=1120, budget_s=170, chunk=7, selftest=3),
         'thorough': dict(runs=40000, budget_s=1500, chunk=14, selftest=6)}
V = sched.V
SCALES = [1.0, 0.1, 0.01]

# ladder thresholds, calibrated on the repaired tree over 4 000 + 1 600 ladder worlds
# (tools/calibrate_c12.py, DESIGN.md 3.5).  Worst clean excess of the estimates
#   D(0.01) - 0.2*D(0.1):  weak/3-D 2.9e-3, weak/2-D 9.9e-3, strong/3-D 7.2e-2 (heavy
#   tail: 2.5e-2 in the first 4 000), strong/2-D 8.5e-2;  D(0.1) - 0.5*D(1) <= 5.3e-3;
# sigma tables D_sigma(0.01) - 0.2*D_sigma(0.1) <= 0 (floor 1.5e-4 kept).  Head-room >= 6x.
RATIO = (0.5, 0.2)      # D(0.1) <= 0.5*D(1) + TAU0 and D(0.01) <= 0.2*D(0.1) + TAU0
                        # (the first step is looser: at s=1 second- and third-order terms
                        #  of opposite sign can make D(1) anomalously small)
TAU0 = {('weak', True): 2e-2, ('weak', False): 6e-2,
        ('strong', True): 0.4, ('strong', False): 0.55}
# worlds whose aiding epochs fall BETWEEN IMU epochs: the feedback filter predicts to the
# exact epoch, the feedforward filter interpolates the computed rows and applies the fix at
# the row before - a first-order difference of the two designs.  Clean residuals (1 600
# worlds): weak 2.0e-2, strong 0.33 (3-D) / 0.80 (2-D).  Only gross disagreement of the
# estimates is judged there; the sigma rule (clean excess <= 0) is judged in full.
TAU0_ASYNC = {'weak': 0.15, 'strong': 4.0}
QUIET_SHARE = 0.3
# quiet worlds (straight leg, constant velocity and attitude, aiding on IMU epochs): worst
# clean excess D(0.01) - 0.2*D(0.1) over 1 880 worlds (tools/c12_calibration_quiet*.json):
# weak/3-D 2.0e-3, weak/2-D 7.0e-3, strong/3-D 3.0e-2, strong/2-D 4.8e-2; D(0.1) - 0.5*D(1)
# <= 8e-3.  Thresholds at 6x: about half the ordinary ones.
TAU0_QUIET = {('weak', True): 1.2e-2, ('weak', False): 4.2e-2,
              ('strong', True): 0.18, ('strong', False): 0.3}
SD_RATIO = 0.2          # D_sigma(0.01) <= SD_RATIO * D_sigma(0.1) + SD_FLOOR; the step from
SD_FLOOR = 1.5e-4       # s=1 is NOT judged for sigma: 5 of 4 000 clean worlds have
                        # D_sigma(0.1) > 0.5*D_sigma(1) (higher-order terms at full scale)


def family_of(index):
    import os
    if os.environ.get('VERIF_C12_FAMILY'):
        return os.environ['VERIF_C12_FAMILY']
    if index % 70 == 69:
        return 'L'          # directed ladder world for known finding F7
    k = index % 7
    return 'T' if k in (0, 1, 2, 3) else ('R' if k == 4 else 'F')


# ------------------------------------------------------------------ generation
def _total_loss(sc, r):
    """Fault: every aiding sample is lost, late, early or stamped exactly at the end."""
    t0, t1 = sc['imu']['stamps'][0], sc['imu']['stamps'][-1]
    period = (t1 - t0) / (len(sc['imu']['stamps']) - 1)
    trace = sc['faults']
    form = int(r.integers(5))
    if form == 0 or not sc['sensors']:
        if not sc['sensors'] and r.random() < 0.5:
            # measurement objects with empty tables
            sc['sensors'] = [dict(cls=FW.SENSOR_CLASSES[int(r.integers(3))], sd=1.0,
                                  lever=None, noise_seed=1, stamps=[])]
            sc['knobs']['measurements_arg'] = 'list'
            trace.append(dict(kind='meas_outage', whole=True))
        else:
            sc['sensors'] = []
            sc['knobs']['measurements_arg'] = ['none', 'empty'][int(r.integers(2))]
            trace.append(dict(kind='no_measurements',
                              form=sc['knobs']['measurements_arg']))
        return sc
    sc['knobs']['measurements_arg'] = 'list'
    for s in sc['sensors']:
        how = int(r.integers(5))
        n = int(r.integers(1, 4))
        if how == 0:
            s['stamps'] = []
            trace.append(dict(kind='meas_outage', whole=True))
        elif how == 1:
            s['stamps'] = [float(t1)]
            trace.append(dict(kind='at_end'))
        elif how == 2:
            s['stamps'] = sorted(float(t0 - period * r.uniform(1e-9, 3)) for _ in range(n))
            trace.append(dict(kind='meas_early'))
        elif how == 3:
            s['stamps'] = sorted(float(t1 + period * r.uniform(1e-9, 3)) for _ in range(n))
            trace.append(dict(kind='meas_late'))
        else:
            s['stamps'] = sorted({float(t0 - period), float(t1),
                                  float(np.nextafter(t1, np.inf)),
                                  float(np.nextafter(t0, -np.inf))})
            trace.append(dict(kind='meas_early'))
            trace.append(dict(kind='meas_late'))
    return sc


def _gen_T(run_seed):
    sc = FW.generate(run_seed, 'feedback', 'sched')
    r = FW.rng_of(run_seed ^ 0x5DEECE66D)
    sc = _total_loss(sc, r)
    sc['family'] = 'T'
    return sc


def _gen_R(run_seed):
    r = FW.rng_of(run_seed ^ 0xA5A5A5)
    A = FW.generate(run_seed, 'feedforward', 'est')
    B = FW.generate(run_seed + 1, 'feedforward', 'est')
    for s in (A, B):
        s['knobs']['traj_subsample'] = 1
        s['knobs']['increments_given'] = True
        s['knobs']['measurements_arg'] = 'list'
        s['knobs']['models_omitted'] = False
        if s['knobs']['time_step'] is not None and s['knobs']['time_step'] < 0.05:
            s['knobs']['time_step'] = 0.3
    # the two scenarios share the SAME sensor-model objects
    if A['knobs']['gyro_model'] is None:
        A['knobs']['gyro_model'] = dict(bias_sd=1e-4, noise=None, bias_walk=None,
                                        scale_misal_sd=1e-3)
    if A['knobs']['accel_model'] is None:
        A['knobs']['accel_model'] = dict(bias_sd=1e-2, noise=1e-3, bias_walk=None,
                                         scale_misal_sd=None)
    B['knobs']['gyro_model'] = A['knobs']['gyro_model']
    B['knobs']['accel_model'] = A['knobs']['accel_model']
    n_ops = int(r.integers(2, 6))
    ops = [[['feedback', 'feedforward'][int(r.integers(2))], ['A', 'B'][int(r.integers(2))]]
           for _ in range(n_ops)]
    if r.random() < 0.4:
        # some runs of the history are made in the OTHER altitude mode, with the very same
        # caller objects (initial state, tables, models): a 2-D run between two 3-D runs
        for op in ops:
            op.append(bool(r.random() < 0.4))
    return dict(format=1, kind='runs', family='R', A=A, B=B, ops=ops,
                run_seed=int(run_seed))


def _gen_F(run_seed, lever_world=False):
    r = FW.rng_of(run_seed)
    for _ in range(40):
        sc = _gen_F_once(r, lever_world)
        if sc is not None:
            sc['run_seed'] = int(run_seed)
            return sc
    raise RuntimeError("ladder generator could not stay inside the fence")


def _gen_L(run_seed):
    return _gen_F(run_seed, lever_world=True)


def _gen_F_once(r, lever_world=False):
    wd = W.make_world(r, gentle=True)
    if lever_world:
        # body rates of a few 0.01 rad/s so that omega x lever is centimetres per second
        wd['rate_terms'] = [[float(r.uniform(0.03, 0.05)), float(r.uniform(0.02, 0.033)),
                             float(r.uniform(0, 6.28)), int(r.integers(3))]
                            for _ in range(2)]
    period = [0.02, 0.05][int(r.integers(2))]
    span = float(r.uniform(6.0, 14.0))
    n = int(round(span / period))
    origin = [0.0, 100.0, 4.0e5][int(r.integers(3))]
    imu = origin + period * np.arange(n + 1)
    regime = ['weak', 'strong'][int(r.integers(2))]
    if lever_world:
        regime = 'strong'
    sig = [10.0 * FW._logu(r, -0.5, 0.5), 1.0 * FW._logu(r, -0.5, 0.5),
           0.5 * FW._logu(r, -0.5, 0.3), 2.0 * FW._logu(r, -0.5, 0.3)]
    mult = float(r.uniform(1.0, 3.0)) if regime == 'weak' else float(r.uniform(0.05, 0.15))
    sensors = []
    asynchronous = bool(r.random() < 0.4)
    classes = [c for c in FW.SENSOR_CLASSES if r.random() < 0.6] or ['Position']
    if lever_world and 'NedVelocity' not in classes:
        classes.append('NedVelocity')
    taken = set()
    for cls in classes:
        k = int(r.integers(3, 8))
        cand = [i for i in range(5, n - 2) if i not in taken]
        idx = sorted(int(x) for x in r.choice(cand, size=k, replace=False))
        if r.random() < 0.3 and 0 not in taken:
            idx = [0] + idx             # a fix stamped exactly with the initial state
        if taken and r.random() < 0.5:
            # an epoch shared with another sensor (position and velocity of one receiver)
            share = sorted(taken)
            for _j in range(int(r.integers(1, 3))):
                idx.append(share[int(r.integers(len(share)))])
            idx = sorted(set(idx))
        taken.update(idx)
        sd = (sig[0] if cls == 'Position' else sig[1]) * mult
        lever = None
        # (a NedVelocity lever arm is outside the ladder's domain: the feedforward filter
        #  hands the measurement model no body rates, see finding F7 in DESIGN.md)
        if cls == 'Position' and r.random() < 0.4:
            lever = [FW._f(x) for x in r.uniform(-1, 1, 3)]
        if lever_world and cls == 'NedVelocity':
            lever = [FW._f(x) for x in r.uniform(1.0, 2.5, 3) * r.choice([-1, 1], 3)]
        stamps = [float(imu[i]) for i in idx]
        if asynchronous:
            # aiding epochs between IMU epochs (a receiver on its own clock)
            stamps = sorted({float(imu[i] + period * r.uniform(0.05, 0.95))
                             if r.random() < 0.7 else float(imu[i]) for i in idx})
        sensors.append(dict(cls=cls, sd=float(sd), lever=lever,
                            noise_seed=int(r.integers(2 ** 31)), stamps=stamps))
    gyro = dict(bias_sd=FW._logu(r, -3.5, -2.7), noise=FW._logu(r, -4.5, -3.7),
                bias_walk=None,
                scale_misal_sd=(FW._logu(r, -3, -2) if r.random() < 0.3 else None))
    accel = dict(bias_sd=FW._logu(r, -2, -1.2), noise=FW._logu(r, -2.5, -1.7),
                 bias_walk=None,
                 scale_misal_sd=(FW._logu(r, -3, -2) if r.random() < 0.2 else None))
    for mdl in (gyro, accel):
        # per-axis enable masks: a bias modelled on a subset of the axes (not a prefix)
        if r.random() < 0.4:
            mask = [[0, 1, 0], [0, 0, 1], [1, 0, 1], [0, 1, 1], [1, 1, 0]][int(r.integers(5))]
            mdl['bias_sd'] = [mdl['bias_sd'] * m_ for m_ in mask]
    e = np.clip(r.standard_normal(9), -2, 2)
    knobs = dict(with_altitude=bool(lever_world or r.random() < 0.5),
                 time_step=[0.2, 0.5][int(r.integers(2))], initial_size=10000,
                 measurements_arg='list', gyro_model=gyro, accel_model=accel,
                 models_omitted=False, sigmas=sig,
                 init_err=[FW._f(x) for x in
                           e * np.array([sig[0]] * 3 + [sig[1]] * 3 + [sig[2]] * 2 + [sig[3]])],
                 gyro_bias=[FW._f(x) for x in np.clip(r.standard_normal(3), -2, 2) *
                            np.asarray(gyro['bias_sd'])],
                 accel_bias=[FW._f(x) for x in np.clip(r.standard_normal(3), -2, 2) *
                             np.asarray(accel['bias_sd'])],
                 traj_subsample=1, increments_given=True, nominal='computed')
    if not knobs['with_altitude']:
        # a 2-D consistent (level) world: no vertical velocity in the truth or in the
        # initial error, level attitude, yaw-only rotation, horizontal forces only.  The
        # reduced 7-state error model assumes exactly that; tilted 2-D worlds leave a
        # first-order model residual 10x larger, which would only blunt the ladder.
        wd['vel0'][2] = 0.0
        knobs['init_err'][5] = 0.0
        wd['rph0'][0] = 0.0
        wd['rph0'][1] = 0.0
        for t in wd['rate_terms']:
            t[3] = 2
        for t in wd['force_terms']:
            t[3] = int(t[3]) % 2
    # (A decimated trajectory for the feedforward filter is NOT part of the ladder: that
    #  filter applies a fix at the last ROW not after it, so on every k-th row its state at a
    #  row already contains fixes up to k IMU periods later - a zeroth-order difference of
    #  bookkeeping, measured D = 1...20 sigma on the unchanged tree.)
    # quiet worlds (drawn last, so that the other draws of a run seed are unchanged): a
    # straight leg at constant velocity and attitude, aiding on IMU epochs.  The residual
    # between "estimate propagated through the real integrator" and "through the discretised
    # linear model" all but vanishes there, so the first-order rule is judged with a
    # threshold 10-40x tighter (TAU0_QUIET) - small gain errors in the feedback path show.
    quiet = bool(r.random() < QUIET_SHARE) and not lever_world and not asynchronous
    if os.environ.get('VERIF_C12_QUIET') and not lever_world:
        quiet, asynchronous = True, False
        for s_, cls in zip(sensors, classes):
            s_['stamps'] = sorted({float(imu[int(round((t - origin) / period))])
                                   for t in s_['stamps']})
    if quiet:
        wd['rate_terms'] = []
        wd['force_terms'] = []
    sc = dict(format=1, kind='filter', family='L' if lever_world else 'F',
              filter='feedback', profile='ladder', quiet=quiet,
              template='ladder', regime=regime, asynchronous=asynchronous, world=wd,
              imu=dict(type=['rate', 'increment'][int(r.integers(2))],
                       stamps=[float(x) for x in imu]),
              sensors=sensors, faults=[], knobs=knobs)
    try:
        if not FW.materialise(sc, fence_only=True)['in_fence']:
            return None
    except Exception:
        return None
    return sc


def generate(run_seed, tier, index):
    fam = family_of(index)
    return {'T': _gen_T, 'R': _gen_R, 'F': _gen_F, 'L': _gen_L}[fam](run_seed)


# ------------------------------------------------------------------- execution
def _exec_T(sc):
    m = FW.materialise(sc)
    out = FW.run_filter(sc, m)
    viol = []
    if out.error_class is not None:
        viol.append(V('no-result', f"feedback filter did not return: {out.error}",
                      f"T/no-result/{out.error_class}"))
    else:
        with InitialSize(10000):
            plain = strapdown.Integrator(m['initial'],
                                         m['with_altitude']).integrate(m['increments'])
        tr = out.result.trajectory
        if not (sched.same_times(tr.index, plain.index) and
                tr.shape == plain.shape and
                same_bits(tr.to_numpy(), plain.to_numpy())):
            if tr.shape != plain.shape:
                d = f"shape {tr.shape} vs {plain.shape}"
            else:
                diff = np.nonzero((tr.to_numpy() != plain.to_numpy()).any(axis=1))[0]
                k = int(diff[0]) if len(diff) else -1
                d = (f"first differing row {k} (t={float(tr.index[k])!r}); max abs "
                     f"difference {float(np.nanmax(np.abs(tr.to_numpy() - plain.to_numpy()))):.3e}")
            viol.append(V('transparency',
                          "no measurement inside the processed span, yet the feedback "
                          "trajectory is not bit-identical to plain strapdown integration: "
                          + d, 'T/transparency'))
        used = sum(1 for obj in m['measurements'] for (_t, s) in obj.spy_log
                   if s is not None)
        if used:
            viol.append(V('transparency', f"{used} measurement model(s) were used although "
                                          f"no sample lies in [start, end)", 'T/used'))
    probes = {'T_runs': 1}
    kn = sc['knobs']
    if kn['measurements_arg'] in ('none', 'empty'):
        probes['T_measurements_' + kn['measurements_arg']] = 1
    if any(len(s['stamps']) == 0 for s in sc['sensors']):
        probes['T_empty_table'] = 1
    if any(sc['imu']['stamps'][-1] in s['stamps'] for s in sc['sensors']):
        probes['T_stamp_exactly_at_end'] = 1
    if kn['gyro_model'] is not None or kn['accel_model'] is not None:
        probes['T_with_sensor_models'] = 1
    if FW.model_has_sm(kn['gyro_model']) or FW.model_has_sm(kn['accel_model']):
        probes['T_with_scale_misalignment_states'] = 1
    if out.grow_events:
        probes['T_buffer_growth'] = 1
    return dict(violations=viol, digest=sched.result_digest(sc, m, out),
                sig='T|' + FW.signature(sc, m), nontrivial=True, probes=probes,
                faults=FW.fault_counts(sc), sim_s=FW.sim_seconds(sc),
                ops=len(sc['imu']['stamps']) - 1, extra={})


def _tables_digest(res):
    if isinstance(res, str):
        return digest(res)
    parts = [getattr(res, k) for k in ['trajectory'] + sched.SD_TABLES]
    parts.append({k: v for k, v in res.innovations.items()})
    return digest(*parts)


def _run_plain(filt, sc, m, gyro, accel, meas, flip=False):
    kn = sc['knobs']
    sig = kn['sigmas']
    kw = dict(gyro_model=gyro, accel_model=accel, measurements=meas,
              with_altitude=bool(kn['with_altitude']) != bool(flip))
    if kn['time_step'] is not None:
        kw['time_step'] = float(kn['time_step'])
    B = 4 * FW.step_budget_for(sc, m)
    try:
        with StepBudget(B):
            if filt == 'feedback':
                return filters.run_feedback_filter(m['initial'], *sig, m['increments'], **kw)
            return filters.run_feedforward_filter(m['computed'], m['computed'], *sig,
                                                  increments=m['increments'], **kw)
    except (StepBudgetExceeded, KernelBoundsViolation) as e:
        return f"ERR {type(e).__name__}"
    except Exception as e:
        return f"ERR {type(e).__name__}: {str(e)[:100]}"


def _exec_R(sc):
    scs = {'A': sc['A'], 'B': sc['B']}
    mats = {k: FW.materialise(v) for k, v in scs.items()}
    shared_g = FW.build_model(sc['A']['knobs']['gyro_model'])
    shared_a = FW.build_model(sc['A']['knobs']['accel_model'])
    viol = []
    digs = []
    errors = 0
    for i, op in enumerate(sc['ops']):
        filt, which = op[0], op[1]
        flip = bool(op[2]) if len(op) > 2 else False
        s, m = scs[which], mats[which]
        res = _run_plain(filt, s, m, shared_g, shared_a, m['measurements'], flip)
        d_shared = _tables_digest(res)
        m2 = FW.materialise(s)
        res2 = _run_plain(filt, s, m2, FW.build_model(s['knobs']['gyro_model']),
                          FW.build_model(s['knobs']['accel_model']), m2['measurements'], flip)
        d_iso = _tables_digest(res2)
        digs.append(d_shared)
        if isinstance(res, str) or isinstance(res2, str):
            errors += 1
        if d_shared != d_iso:
            what = ''
            if not isinstance(res, str) and not isinstance(res2, str):
                for name in ['trajectory'] + sched.SD_TABLES:
                    a, b = getattr(res, name), getattr(res2, name)
                    if a.shape != b.shape or not same_bits(a.to_numpy(), b.to_numpy()):
                        what = f" (first differing table: {name})"
                        break
            else:
                what = f" ({res if isinstance(res, str) else 'ok'} vs " \
                       f"{res2 if isinstance(res2, str) else 'ok'})"
            viol.append(V('rerun', f"run #{i} ({filt} on scenario {which}) with the shared "
                                   f"model objects after history {sc['ops'][:i]} differs "
                                   f"from the same run with fresh objects" + what,
                          'R/rerun'))
            break
    probes = {'R_runs': 1}
    seq = ''.join(f"{o[0][:2]}{o[1]}{'~' if len(o) > 2 and o[2] else ''}" for o in sc['ops'])
    if any(sc['ops'][i] == sc['ops'][j] for i in range(len(sc['ops']))
           for j in range(i)):
        probes['R_same_run_repeated'] = 1
    if len({o[0] for o in sc['ops']}) == 2:
        probes['R_both_filters_share_objects'] = 1
    if len({o[1] for o in sc['ops']}) == 2:
        probes['R_two_scenarios_share_models'] = 1
    if len({(o[1], bool(o[2]) if len(o) > 2 else False) for o in sc['ops']}) > \
            len({o[1] for o in sc['ops']}):
        probes['R_both_altitude_modes_on_the_same_caller_objects'] = 1
    if errors:
        probes['R_filter_error_runs'] = 1
    return dict(violations=viol, digest=digest(digs), sig='R|' + seq,
                nontrivial=len(sc['ops']) > 1, probes=probes,
                faults={}, sim_s=sum(FW.sim_seconds(scs[o[1]]) for o in sc['ops']),
                ops=len(sc['ops']), extra={})


def _ladder_metrics(sc):
    """D(s) and D_sigma(s) for the three scales."""
    out = []
    for s in SCALES:
        c = copy.deepcopy(sc)
        c['knobs']['error_scale'] = s
        c['filter'] = 'feedforward'       # materialise computes the computed trajectory
        m = FW.materialise(c)
        kn = c['knobs']
        sig = [float(x) * s for x in kn['sigmas']]

        def models():
            return (FW.build_model(FW.scaled_model_params(kn['gyro_model'], s)),
                    FW.build_model(FW.scaled_model_params(kn['accel_model'], s)))
        kw = dict(measurements=m['measurements'], time_step=float(kn['time_step']),
                  with_altitude=bool(kn['with_altitude']))
        g1, a1 = models()
        fb = filters.run_feedback_filter(m['initial'], *sig, m['increments'], g1, a1, **kw)
        g2, a2 = models()
        comp = m['computed'].iloc[::int(kn.get('ff_decimate', 1))]
        ff = filters.run_feedforward_filter(comp, comp, *sig, g2, a2,
                                            increments=m['increments'], **kw)
        common = ff.trajectory.index.intersection(fb.trajectory_sd.index)
        if len(common) < 3:
            raise RuntimeError("filters share fewer than 3 grid points")
        a = fb.trajectory.loc[common]
        b = ff.trajectory.loc[common]
        rn, rp = W.radii(b.lat.to_numpy(), b.alt.to_numpy())
        dh = (a.heading - b.heading).to_numpy()
        dh = (dh + 180.0) % 360.0 - 180.0
        d = np.c_[np.deg2rad((a.lat - b.lat).to_numpy()) * rn,
                  np.deg2rad((a.lon - b.lon).to_numpy()) * rp,
                  -(a.alt - b.alt).to_numpy(),
                  (a[VEL_COLS] - b[VEL_COLS]).to_numpy(),
                  (a[['roll', 'pitch']] - b[['roll', 'pitch']]).to_numpy(), dh]
        sd = ff.trajectory_sd.loc[common].to_numpy()
        sdb = fb.trajectory_sd.loc[common].to_numpy()
        cols = (sd > 0).all(axis=0)
        D = float((np.abs(d[:, cols]) / sd[:, cols]).max())
        Dsd = float((np.abs(sdb[:, cols] - sd[:, cols]) / sd[:, cols]).max())
        Dg = Da = 0.0
        for name in ('gyro', 'accel'):
            fx = getattr(fb, name).loc[common]
            gx = getattr(ff, name).loc[common]
            gs = getattr(ff, name + '_sd').loc[common]
            bs = getattr(fb, name + '_sd').loc[common]
            if gx.shape[1]:
                val = float((np.abs(fx[gx.columns].to_numpy() - gx.to_numpy())
                             / gs.to_numpy()).max())
                Dsd = max(Dsd, float((np.abs(bs[gs.columns].to_numpy() - gs.to_numpy())
                                      / gs.to_numpy()).max()))
                if name == 'gyro':
                    Dg = val
                else:
                    Da = val
        if not all(np.isfinite([D, Dg, Da, Dsd])):
            raise FloatingPointError("non-finite ladder metric")
        out.append(dict(D=D, Dg=Dg, Da=Da, Dsd=Dsd, n=len(common)))
    return out


def _exec_F(sc):
    viol = []
    met = None
    try:
        met = _ladder_metrics(sc)
    except Exception as e:
        viol.append(V('no-result', f"ladder run failed: {type(e).__name__}: {str(e)[:120]}",
                      'F/no-result'))
    extra = {}
    if met is not None:
        wa = bool(sc['knobs']['with_altitude'])
        tau0 = TAU0_ASYNC[sc['regime']] if sc.get('asynchronous') else \
            TAU0[(sc['regime'], wa)]
        if sc.get('quiet') and not sc.get('asynchronous') and TAU0_QUIET:
            tau0 = TAU0_QUIET[(sc['regime'], wa)]
        lever_note = ''
        if any(s_['cls'] == 'NedVelocity' and s_['lever'] is not None
               for s_ in sc['sensors']):
            lever_note = (" [NedVelocity measurement with a lever arm: the feedforward "
                          "filter hands the measurement model no body rates, so the "
                          "omega x lever term is dropped there - finding F7]")
        for i in (1,):
            hi, lo = met[i], met[i + 1]
            if lo['Dsd'] > SD_RATIO * hi['Dsd'] + SD_FLOOR:
                viol.append(V('ladder-sigma',
                              f"sigma disagreement does not shrink with the error scale: "
                              f"D_sigma({SCALES[i]})={hi['Dsd']:.3e}, "
                              f"D_sigma({SCALES[i + 1]})={lo['Dsd']:.3e}; rule "
                              f"D_sigma(s/10) <= {SD_RATIO}*D_sigma(s) + {SD_FLOOR}",
                              'F/ladder-sigma'))
                break
        for key, label in (('D', 'trajectory'), ('Dg', 'gyro'), ('Da', 'accel')):
            d1, d2, d3 = met[0][key], met[1][key], met[2][key]
            if (d2 > RATIO[0] * d1 + tau0) or (d3 > RATIO[1] * d2 + tau0):
                viol.append(V('ladder',
                              f"feedback and feedforward {label} estimates do not agree to "
                              f"first order ({sc['regime']}-aiding "
                              f"{'3-D' if wa else '2-D'} world): D(1)={d1:.3e}, "
                              f"D(0.1)={d2:.3e}, D(0.01)={d3:.3e} sigma; rule "
                              f"D(0.1) <= {RATIO[0]}*D(1) + {tau0}, D(0.01) <= "
                              f"{RATIO[1]}*D(0.1) + {tau0}" + lever_note,
                              'F/ladder/ned-velocity-lever-arm' if lever_note
                              else f'F/ladder/{label}'))
        r = sc['regime'] + ('3d' if wa else '2d') + ('async' if sc.get('asynchronous') else '') \
            + ('quiet' if sc.get('quiet') else '')
        extra = {f'max_{r}_D1': met[0]['D'], f'max_{r}_D001': met[2]['D'],
                 f'max_{r}_excess_over_tau0': max(
                     max(met[i + 1][k] - RATIO[i] * met[i][k] for k in ('D', 'Dg', 'Da'))
                     for i in (0, 1)) / tau0,
                 'max_sigma_excess_over_floor': (met[2]['Dsd'] - SD_RATIO * met[1]['Dsd'])
                 / SD_FLOOR}
    kn = sc['knobs']
    probes = {'F_worlds': 1, 'F_' + sc['regime'] + '_aiding': 1}
    allst = [t for s_ in sc['sensors'] for t in s_['stamps']]
    if len(allst) > len(set(allst)):
        probes['F_epoch_shared_between_sensors'] = 1
    if any(isinstance(kn[w]['bias_sd'], list) for w in ('gyro_model', 'accel_model')):
        probes['F_bias_on_a_subset_of_axes'] = 1
    if sc.get('asynchronous'):
        probes['F_aiding_epochs_between_imu_epochs'] = 1
    if sc.get('quiet'):
        probes['F_quiet_world_tight_threshold'] = 1
    if any(s_['stamps'] and s_['stamps'][0] == sc['imu']['stamps'][0] for s_ in sc['sensors']):
        probes['F_fix_at_the_initial_stamp'] = 1
    if sc.get('family') == 'L':
        probes = {'L_directed_lever_arm_worlds': 1}
    if FW.model_has_sm(kn['gyro_model']) or FW.model_has_sm(kn['accel_model']):
        probes['F_scale_misalignment_states'] = 1
    if not kn['with_altitude']:
        probes['F_two_d_mode'] = 1
    dg = digest([[m_[k] for k in ('D', 'Dg', 'Da', 'Dsd')] for m_ in met] if met else 'err')
    return dict(violations=viol, digest=dg,
                sig=f"F|{sc['regime']}|{'3d' if kn['with_altitude'] else '2d'}|"
                    f"{kn['time_step']}|{''.join(FW.TOKEN[s['cls']] for s in sc['sensors'])}|"
                    f"{len(sc['imu']['stamps'])}|{sc['run_seed'] % 9973}",
                nontrivial=True, probes=probes, faults={'error_scale_ladder': 1},
                sim_s=3 * 2 * FW.sim_seconds(sc), ops=6, extra=extra)


def execute(sc):
    fam = sc.get('family')
    return {'T': _exec_T, 'R': _exec_R, 'F': _exec_F, 'L': _exec_F}[fam](sc)


def shrink(sc, vclass):
    def pred(c):
        return any(v['class'] == vclass for v in execute(c)['violations'])
    fam = sc.get('family')
    if fam == 'T':
        return shrink_filter_scenario(sc, pred)
    if fam == 'R':
        c = copy.deepcopy(sc)

        def with_ops(ops):
            d = copy.deepcopy(c)
            d['ops'] = ops
            return d
        c['ops'] = ddmin_list(c['ops'], lambda o: pred(with_ops(o)), min_len=1)
        return c
    return sc


def sample_view(sc):
    from . import c09
    fam = sc.get('family')
    if fam == 'R':
        return dict(family='R', ops=sc['ops'],
                    shared_models=dict(gyro=sc['A']['knobs']['gyro_model'],
                                       accel=sc['A']['knobs']['accel_model']),
                    A=c09.sample_view(sc['A']), B=c09.sample_view(sc['B']))
    return dict(family=fam, regime=sc.get('regime'), **c09.sample_view(sc))


PROBES_WANTED = ['T_runs', 'T_measurements_none', 'T_measurements_empty', 'T_empty_table',
                 'T_stamp_exactly_at_end', 'T_with_sensor_models',
                 'T_with_scale_misalignment_states', 'T_buffer_growth', 'R_runs',
                 'R_same_run_repeated', 'R_both_filters_share_objects',
                 'R_two_scenarios_share_models', 'F_worlds', 'F_weak_aiding',
                 'F_strong_aiding', 'F_scale_misalignment_states', 'F_two_d_mode',
                 'L_directed_lever_arm_worlds', 'F_epoch_shared_between_sensors',
                 'F_bias_on_a_subset_of_axes', 'F_aiding_epochs_between_imu_epochs',
                 'F_fix_at_the_initial_stamp', 'F_quiet_world_tight_threshold',
                 'R_both_altitude_modes_on_the_same_caller_objects']


def describe():
    return dict(
        rule=("Three run families per batch (4:1:2). (T) the C09 sensor world with the fault "
              "'total measurement loss' (every sample lost / early / late / exactly at the "
              "end, None, [], empty tables), any time_step, sensor models, capacity knob, "
              "both modes: the REAL feedback filter's trajectory must be bit-identical to one "
              "Integrator.integrate call. (R) a history machine whose operations are whole "
              "filter runs (feedback/feedforward on scenario A or B, in 40 % of the histories "
              "some of them in the other altitude mode) sharing the SAME EstimationModel, "
              "measurement, initial-state and table objects: each run's result digest must "
              "equal that of the same run with freshly built objects. (F) consistent gentle world, "
              "aiding on IMU epochs, time_step <= 0.5 s; every injected error and every sigma "
              "scaled by s in {1, 0.1, 0.01}; D(s) = max |feedback - feedforward| in "
              "feedforward sigma units must fall tenfold per decade down to a calibrated residual (DESIGN.md 3.5). "
              "distinct = distinct signatures per family."),
        real=['pyins.filters.run_feedback_filter', 'pyins.filters.run_feedforward_filter',
              'pyins.strapdown.Integrator + kernel', 'pyins.error_model.InsErrorModel '
              '(correct_pva)', 'pyins.inertial_sensor.EstimationModel (reset/update/correct)',
              'pyins.kalman', 'pyins.measurements (spy subclasses)'],
        stub=['motion, devices, clocks, fault injector, error realisations'],
        assumptions=[
            "Sampling, not enumeration.",
            "(T) bitwise equality is sound: with zero estimates the increment correction is "
            "solve(I, x - 0*dt), exact in IEEE arithmetic.",
            "(F) is knowingly weaker than the property text: the proportional law "
            "D(0.1) <= 0.5*D(1) + tau0, D(0.01) <= 0.2*D(0.1) + tau0 is demanded only down to a residual tau0 that depends "
            "on the world class (2e-2 weak/3-D ... 0.55 strong/2-D), because the discretised "
            "error model leaves a first-order residual (DESIGN.md 3.5). A first-order defect "
            "smaller than about 2e-2 sigma is not caught (about 1e-2 in the 30 % 'quiet' "
            "worlds - straight leg, constant velocity and attitude - which have their own, "
            "tighter calibrated thresholds). NedVelocity lever arms are outside "
            "the ladder's domain (finding F7).",
            "Ladder thresholds are calibrated on the repaired tree with >= 5x head-room."],
        probes_wanted=PROBES_WANTED)
