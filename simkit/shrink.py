"""Scenario minimisation by delta debugging.

``predicate(scenario) -> bool`` is "the same violation class still appears"; every
candidate is re-materialised and re-run under the same monitors by the caller's predicate.
"""
import copy
import time


def ddmin_list(items, test, min_len=0, deadline=None):
    """Classic ddmin over a list; ``test(list) -> bool`` (True = still failing)."""
    items = list(items)
    n = 2
    while len(items) > min_len and len(items) >= 1:
        if deadline is not None and time.time() > deadline:
            break
        size = max(1, len(items) // n)
        reduced = False
        for start in range(0, len(items), size):
            cand = items[:start] + items[start + size:]
            if len(cand) < min_len:
                continue
            if test(cand):
                items = cand
                n = max(n - 1, 2)
                reduced = True
                break
        if not reduced:
            if size == 1:
                break
            n = min(len(items), n * 2)
    return items


def try_set(sc, path, value, predicate):
    """Set sc[path...] = value if the predicate still holds; return (sc, changed)."""
    cand = copy.deepcopy(sc)
    d = cand
    for k in path[:-1]:
        d = d[k]
    if d.get(path[-1]) == value if isinstance(d, dict) else d[path[-1]] == value:
        return sc, False
    d[path[-1]] = value
    try:
        if predicate(cand):
            return cand, True
    except Exception:
        pass
    return sc, False


def shrink_filter_scenario(sc, predicate, budget_s=120.0):
    """Minimise a filter scenario: IMU tail/head, sensors, epochs, then scalars."""
    deadline = time.time() + budget_s
    sc = copy.deepcopy(sc)

    def ok(c):
        try:
            return bool(predicate(c))
        except Exception:
            return False

    # 1. IMU stamps (keep >= 3 stamps); first try cutting the tail, then general ddmin
    def with_imu(st):
        c = copy.deepcopy(sc)
        c['imu']['stamps'] = st
        return c
    st = sc['imu']['stamps']
    lo = 3
    while len(st) > lo and time.time() < deadline:
        half = max(lo, len(st) // 2)
        if half < len(st) and ok(with_imu(st[:half])):
            st = st[:half]
            sc['imu']['stamps'] = st
        else:
            break
    st = ddmin_list(sc['imu']['stamps'], lambda s: ok(with_imu(s)), min_len=3,
                    deadline=deadline)
    sc['imu']['stamps'] = st

    # 2. drop whole sensors
    def with_sensors(ss):
        c = copy.deepcopy(sc)
        c['sensors'] = ss
        return c
    if sc['sensors']:
        sc['sensors'] = ddmin_list(sc['sensors'], lambda s: ok(with_sensors(s)),
                                   deadline=deadline)
    # 3. drop epochs per sensor
    for i in range(len(sc['sensors'])):
        def with_epochs(ep, i=i):
            c = copy.deepcopy(sc)
            c['sensors'][i]['stamps'] = ep
            return c
        sc['sensors'][i]['stamps'] = ddmin_list(
            sc['sensors'][i]['stamps'], lambda e: ok(with_epochs(e)), deadline=deadline)
    # 4. scalars
    for path, value in [
        (('knobs', 'gyro_model'), None), (('knobs', 'accel_model'), None),
        (('knobs', 'initial_size'), 10000), (('knobs', 'traj_subsample'), 1),
        (('knobs', 'init_err'), [0.0] * 9), (('knobs', 'gyro_bias'), [0.0] * 3),
        (('knobs', 'accel_bias'), [0.0] * 3), (('knobs', 'with_altitude'), True),
        (('knobs', 'nominal'), 'computed'),
        (('world', 'rate_terms'), []), (('world', 'force_terms'), []),
        (('world', 'vel0'), [0.0, 0.0, 0.0]), (('world', 'rph0'), [0.0, 0.0, 0.0]),
    ]:
        if time.time() > deadline:
            break
        d = sc
        missing = False
        for k in path[:-1]:
            if k not in d:
                missing = True
                break
            d = d[k]
        if missing or path[-1] not in d:
            continue
        sc, _ = try_set(sc, path, value, ok)
    for i in range(len(sc['sensors'])):
        if time.time() > deadline:
            break
        sc, _ = try_set(sc, ('sensors', i, 'lever'), None, ok)
    ts = sc['knobs'].get('time_step')
    if ts is not None and time.time() < deadline:
        for cand in (None, float(f"{ts:.1g}"), float(f"{ts:.2g}")):
            sc, ch = try_set(sc, ('knobs', 'time_step'), cand, ok)
            if ch:
                break
    sc['faults'] = sc.get('faults', []) + [dict(kind='(minimised)')]
    return sc
