"""C09 — feedback filter handles every IMU/measurement interleaving exactly once."""
from . import env  # noqa: F401
import json
import os
from . import fworld as FW
from . import sched
from .shrink import shrink_filter_scenario

PROP = 'C09'
LEVEL = 'exploration'
FILTER = 'feedback'
TIERS = {'quick': dict(runs=1600, budget_s=150, chunk=8, selftest=4),
         'thorough': dict(runs=60000, budget_s=1500, chunk=16, selftest=12)}


F9_FILE = os.path.join(os.path.dirname(os.path.dirname(os.path.abspath(__file__))),
                       'replays', 'findings', 'F9-C09-fixes-inside-long-gap-diverge.json')


def generate(run_seed, tier, index):
    if index == 5 and os.path.exists(F9_FILE):
        # directed run for known finding F9: the recorded scenario itself (the divergence
        # needs 2-D mode, a lever arm, a pitching vehicle and nine accurate fixes inside one
        # 2.2 s IMU gap all at once - too fragile for a random template)
        sc = json.load(open(F9_FILE))['scenario']
        sc['knobs']['rerun'] = None
        sc['template'] = 'recorded_F9'
        return sc
    return FW.generate(run_seed, FILTER, 'sched')


def execute(sc, check=None):
    m = FW.materialise(sc)
    mode = sc['knobs'].get('rerun')
    mode = 'same' if mode is True else mode
    if mode == 'prefix':
        # an earlier call over the first half of the data with the SAME measurement and
        # sensor-model objects must not change what the full run does
        kw0 = FW.filter_kwargs(sc, m)
        FW.run_prefix(sc, m, kw0)
        FW.reset_spies(m)
        out = FW.run_filter(sc, m, reuse=kw0)
        viol = sched.check_c09(sc, m, out)
        note = "(after an earlier run over the first half of the data with the same " \
               "measurement and model objects) "
    else:
        out = FW.run_filter(sc, m)
        viol = sched.check_c09(sc, m, out)
        note = ''
        if mode == 'same' and not viol:
            # the same call again with the same objects: every clause must hold again
            FW.reset_spies(m)
            out = FW.run_filter(sc, m, reuse=out.kwargs)
            viol = sched.check_c09(sc, m, out)
            note = "(second run with the same measurement and model objects) "
    if note:
        for v in viol:
            v['detail'] = note + v['detail']
            v['key'] = 'rerun/' + v['key']
    return dict(violations=viol, digest=sched.result_digest(sc, m, out),
                sig=FW.signature(sc, m), nontrivial=FW.nontrivial(sc, m),
                probes=dict(FW.probes(sc, m, out), **({'second_run_' + str(mode): 1}
                                                       if mode else {})), faults=FW.fault_counts(sc),
                sim_s=FW.sim_seconds(sc), ops=len(sc['imu']['stamps']) - 1 +
                sum(len(s['stamps']) for s in sc['sensors']),
                extra=dict(filter_lines=out.lines, kernel_calls=out.kernel_calls,
                           max_lines_over_budget=out.lines / FW.step_budget_for(sc, m)))


def shrink(sc, vclass):
    def pred(c):
        return any(v['class'] == vclass for v in execute(c)['violations'])
    return shrink_filter_scenario(sc, pred)


def sample_view(sc):
    return dict(template=sc['template'], imu_type=sc['imu']['type'],
                imu_stamps=sc['imu']['stamps'][:12] + (['...'] if len(sc['imu']['stamps'])
                                                       > 12 else []),
                sensors=[dict(cls=s['cls'], lever=s['lever'], stamps=s['stamps'])
                         for s in sc['sensors']],
                faults=sc['faults'], knobs={k: v for k, v in sc['knobs'].items()
                                            if k not in ('init_err', 'gyro_bias',
                                                         'accel_bias')})


PROBES_WANTED = ['sample_in_last_interval', 'three_in_one_interval', 'stamp_at_start',
                 'stamp_at_end', 'shared_stamp', 'cluster_in_first_interval',
                 'cluster_in_last_interval', 'step_lands_below_next_row',
                 'buffer_growth_inside_filter', 'empty_table', 'all_samples_lost',
                 'measurements_none', 'measurements_empty', 'models_omitted',
                 'default_time_step', 'gps_week_scale_clock', 'negative_clock', 'clock_crosses_zero',
                 'second_run_same', 'second_run_prefix',
                 'measurement_table_not_sorted_by_time',
                 'a_plus_gap_rounds_off_next_stamp', 'stamp_one_ulp_from_epoch']


def describe():
    return dict(
        rule=("Each run: one seeded sensor world (stub motion + IMU clock + up to three "
              "aiding clocks) passed through the stream fault injector and delivered to "
              "the REAL run_feedback_filter under a step budget, a kernel bounds shim and "
              "measurement spies. A run is non-trivial when its schedule has something "
              "the repo's two filter tests never have (off-epoch sample, cluster, shared "
              "stamp, IMU gap, boundary/out-of-span stamp, time_step not above every gap, "
              "measurements None/[]). distinct = distinct interleaving signatures (merged "
              "time-sorted event tokens, coincident events grouped, bare IMU runs "
              "collapsed, prefixed by time_step regime/altitude mode/measurements form) "
              "among the non-trivial runs."),
        real=['pyins.filters.run_feedback_filter', 'pyins.strapdown.Integrator + numba '
              'kernel', 'pyins.strapdown.compute_increments_from_imu',
              'pyins.error_model.InsErrorModel', 'pyins.kalman',
              'pyins.measurements.{Position,NedVelocity,BodyVelocity} (via spy subclasses)',
              'pyins.inertial_sensor.EstimationModel', 'pyins.transform', 'pyins.earth',
              'pyins.util'],
        stub=['rigid-body motion and body rate/specific force signals', 'IMU device and '
              'its clock', 'aiding devices, their clocks and noise', 'transport / stream '
              'fault injector', 'initial-condition and IMU bias errors'],
        assumptions=[
            "Sampling, not enumeration: a clean batch is evidence, not proof.",
            "Domain = the property's quantifier: strictly increasing stamps inside each "
            "table, at most one measurement object per class, time_step > 0, |pitch|<=75 "
            "deg, |lat|<=82 deg, speed<=300 m/s, sigmas 1e-2..1e2.",
            "Termination is decided as bounded liveness: <= 2000*(rows+epochs+2) executed "
            "source lines of pyins.filters (>= 20x the measured need).",
            "A compute_matrices call that returns a model counts as one use of that "
            "sample (delivery history recorded by spy subclasses).",
            "The numba kernel cannot be interrupted by the step budget (bounded for-loop); "
            "a wall-clock watchdog backs it up as a harness error, never a verdict."],
        probes_wanted=PROBES_WANTED)
