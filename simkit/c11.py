"""C11 — feedforward filter equals the exact linear-Gaussian estimator of its model.

Refinement against a small executable reference model (``refkf``), evaluated over the
recorded history of one simulated run of the fault-injected sensor world.
"""
from . import env  # noqa: F401
import numpy as np

from pyins import error_model as em
from pyins.util import VEL_COLS, RPH_COLS

from . import fworld as FW
from . import sched
from . import refkf
from . import world as W
from . import c09 as _c09
from .shrink import shrink_filter_scenario

PROP = 'C11'
LEVEL = 'exploration'
TOL = 2e-6
# numerical error also scales with the size of the numbers involved, not only with sigma: an
# estimate of -8.4 deg with a posterior sigma of 0.016 deg (540 sigma) agreed to 3.8e-9
# relative, i.e. 2.06e-6 sigma - a false alarm of the first thorough soak.  So every
# comparison allows TOL*sigma (or TOL absolute) + REL_X*|reference value|.
REL_X = 1e-7
TIERS = {'quick': dict(runs=3000, budget_s=170, chunk=10, selftest=4),
         'thorough': dict(runs=30000, budget_s=1500, chunk=8, selftest=8)}

V = sched.V


def generate(run_seed, tier, index):
    return FW.generate(run_seed, 'feedforward', 'est')


def association(sc, m, grid):
    """[(grid_time, sample_time, list position, obj)] in processing order: a sample is
    applied at the last grid time not after it."""
    exp = FW.expected_stamps(sc, m)
    out = []
    for pos, (obj, st) in enumerate(zip(m['measurements'], exp)):
        for mt in st:
            k = int(np.searchsorted(grid, mt, side='right') - 1)
            out.append((float(grid[k]), float(mt), pos, obj))
    out.sort(key=lambda a: (a[0], a[1], a[2]))
    return out


def compare(sc, m, res):
    kn = sc['knobs']
    wa = bool(kn['with_altitude'])
    nominal, computed = m['nominal'], m['computed']
    times = np.asarray(computed.index, dtype=float)
    grid = np.asarray(res.trajectory.index, dtype=float)
    if (len(grid) == 0 or grid[0] != times[0] or not FW.strictly_increasing(grid)
            or not FW.is_subset(grid, times)):
        return [V('no-grid', "result grid is not a strictly increasing subset of the "
                             "input times starting at the first one")], {}
    for name in sched.SD_TABLES:
        if not sched.same_times(np.asarray(getattr(res, name).index, dtype=float), grid):
            return [V('no-grid', f"{name} is not indexed by the result grid")], {}
    # the reference evaluates the measurement models on FRESH objects built from the
    # scenario, so that state carried inside the objects the filter used cannot reach it
    m_ref = FW.materialise(sc)
    assoc = association(sc, m_ref, grid)
    inc = m['increments_passed'] if kn.get('increments_given', True) else None
    scale = float(kn.get('error_scale', 1.0))
    sig = [float(s) * scale for s in kn['sigmas']]
    gp = None if kn.get('models_omitted') else FW.scaled_model_params(kn['gyro_model'],
                                                                     scale)
    ap = None if kn.get('models_omitted') else FW.scaled_model_params(kn['accel_model'],
                                                                     scale)
    try:
        xs, Ps, innov, gl, al = refkf.reference_estimate(
            nominal, computed, sig, gp, ap, m_ref['measurements'], inc, grid,
            [(a, b, d) for a, b, c, d in assoc], wa)
    except refkf.ModelUnavailable as e:
        return [V('model-unavailable',
                  f"{e.args[0]}.compute_matrices answers None (\"not available\") for the "
                  f"sample stamped {e.args[1]!r}, which is in its table - the measurement set "
                  f"the estimator is defined on is not the one that was supplied",
                  'model-unavailable')], {}
    model = em.InsErrorModel(wa)
    ni = model.n_states
    nom_g = nominal.loc[grid]
    T = model.transform_to_output(nom_g)
    var_o = np.einsum('kij,kjl,kml->kim', T, Ps[:, :ni, :ni], T).diagonal(axis1=1, axis2=2)
    sd_o = np.sqrt(np.maximum(var_o, 0.0))
    viol = []
    met = {}
    cols = list(res.trajectory_sd.columns)
    sd_f = res.trajectory_sd.to_numpy(dtype=float)
    if sd_f.shape != sd_o.shape:
        return [V('layout', f"trajectory_sd has shape {sd_f.shape}")], {}
    pos = var_o > 0
    if not np.isfinite(sd_f).all():
        return [V('nonfinite', "trajectory_sd not finite")], {}

    def worst(err, names_or_none=None):
        if err.size == 0:
            return 0.0, ''
        j = np.unravel_index(int(np.argmax(err)), err.shape)
        return float(err[j]), j

    def relcheck(cls, f, o, scale_arr, what, colnames, rel):
        if o.size == 0:
            return 0.0
        with np.errstate(all='ignore'):
            slack = 0.0 if rel else REL_X * np.abs(o)
            err = np.maximum(np.abs(f - o) - slack, 0.0) / scale_arr
        err = np.where(np.isfinite(err), err, np.inf)
        w, j = worst(err)
        if w > TOL:
            k, c = j
            viol.append(V(cls, f"{what}[{colnames[c]}] at t={float(grid[k])!r} (grid point "
                               f"{k} of {len(grid)}): filter {float(f[k, c])!r}, reference "
                               f"estimator {float(o[k, c])!r} "
                               f"({'relative' if rel else 'in sigma units'} error {w:.2e} "
                               f"> {TOL:g})", f"{cls}/{what}"))
        return w

    # sigma tables
    e = np.zeros_like(sd_f)
    e[pos] = np.abs(sd_f - sd_o)[pos] / sd_o[pos]
    met['max_sd_rel'] = float(e.max()) if e.size else 0.0
    if met['max_sd_rel'] > TOL:
        k, c = np.unravel_index(int(np.argmax(e)), e.shape)
        viol.append(V('covariance', f"trajectory_sd[{cols[c]}] at t={float(grid[k])!r} "
                                    f"(grid point {k} of {len(grid)}): filter "
                                    f"{float(sd_f[k, c])!r}, reference estimator "
                                    f"{float(sd_o[k, c])!r} (relative error "
                                    f"{met['max_sd_rel']:.2e} > {TOL:g})",
                      'covariance/trajectory_sd'))
    if not (sd_f[~pos] == 0.0).all():
        viol.append(V('covariance', "a column with exactly zero reference sigma is "
                                    "non-zero in the filter", 'covariance/zero-column'))
    for tab_sd, tab, labels, lo in (('gyro_sd', 'gyro', gl, ni),
                                    ('accel_sd', 'accel', al, ni + len(gl))):
        fsd = getattr(res, tab_sd)
        fx = getattr(res, tab)
        if sorted(fsd.columns) != sorted(labels) or sorted(fx.columns) != sorted(labels):
            viol.append(V('layout', f"{tab} columns {list(fx.columns)} / {tab_sd} columns "
                                    f"{list(fsd.columns)}; parameters imply {labels}",
                          f'layout/{tab}'))
            continue
        if not labels:
            continue
        hi = lo + len(labels)
        s_o = np.sqrt(np.maximum(Ps[:, lo:hi, lo:hi].diagonal(axis1=1, axis2=2), 0.0))
        met['max_' + tab_sd + '_rel'] = relcheck(
            'covariance', fsd[labels].to_numpy(dtype=float), s_o, s_o, tab_sd, labels, True)
        met['max_' + tab + '_err'] = relcheck(
            'estimate', fx[labels].to_numpy(dtype=float), xs[:, lo:hi], s_o, tab, labels,
            False)
    # error estimate implied by computed - compensated, in output coordinates
    err_o = np.einsum('kij,kj->ki', T, xs[:, :ni])
    c = computed.loc[grid]
    f = res.trajectory
    rn, rp = W.radii(nom_g.lat.to_numpy(), nom_g.alt.to_numpy())
    err_f = np.c_[np.deg2rad((c.lat - f.lat).to_numpy()) * rn,
                  np.deg2rad((c.lon - f.lon).to_numpy()) * rp,
                  -(c.alt - f.alt).to_numpy(),
                  (c[VEL_COLS] - f[VEL_COLS]).to_numpy(),
                  (c[RPH_COLS] - f[RPH_COLS]).to_numpy()]
    if not np.isfinite(err_f).all():
        viol.append(V('nonfinite', "compensated trajectory not finite"))
    else:
        e = np.zeros_like(err_f)
        e[pos] = np.abs(err_f - err_o)[pos] / sd_o[pos]
        # rounding floor of forming computed - compensated from ~1e2-sized numbers
        floor = np.zeros_like(err_f)
        floor[:, 0] = 4e-16 * 90 * np.pi / 180 * rn
        floor[:, 1] = 4e-16 * 180 * np.pi / 180 * rp
        floor[:, 2] = 4e-16 * np.abs(c.alt.to_numpy())
        floor[:, 3:6] = 4e-16 * np.abs(c[VEL_COLS].to_numpy())
        floor[:, 6:9] = 4e-16 * 360
        with np.errstate(all='ignore'):
            e_adj = np.where(pos, np.maximum(np.abs(err_f - err_o) - 4 * floor
                                             - REL_X * np.abs(err_o), 0.0)
                             / np.where(pos, sd_o, 1.0), 0.0)
        met['max_est_err'] = float(e_adj.max()) if e_adj.size else 0.0
        if met['max_est_err'] > TOL:
            k, cc = np.unravel_index(int(np.argmax(e_adj)), e_adj.shape)
            viol.append(V('estimate',
                          f"error estimate (computed - compensated) [{cols[cc]}] at "
                          f"t={float(grid[k])!r} (grid point {k} of {len(grid)}): filter "
                          f"{float(err_f[k, cc])!r}, reference estimator "
                          f"{float(err_o[k, cc])!r} ({met['max_est_err']:.2e} sigma > "
                          f"{TOL:g})", 'estimate/trajectory'))
        zero_cols = ~pos
        if zero_cols.any() and not (np.abs(err_f[zero_cols]) <= 4 * floor[zero_cols]).all():
            viol.append(V('estimate', "a component with exactly zero sigma is changed by "
                                      "the compensation", 'estimate/zero-column'))
    # normalised innovations
    cnt = {}
    worst_i = 0.0
    for name, gt, v in innov:
        j = cnt.get(name, 0)
        cnt[name] = j + 1
        tab = res.innovations.get(name)
        if tab is None or j >= len(tab):
            viol.append(V('innovation', f"innovation row {j} of {name} missing",
                          'innovation/missing'))
            break
        fv = tab.iloc[j].to_numpy(dtype=float)
        if len(fv) != len(v):
            viol.append(V('innovation', f"innovation row {j} of {name} has {len(fv)} "
                                        f"entries, reference {len(v)}", 'innovation/width'))
            break
        d = float(np.max(np.maximum(np.abs(fv - v) - REL_X * np.abs(v), 0.0))) \
            if np.isfinite(fv).all() else np.inf
        if d > worst_i:
            worst_i = d
        if d > TOL:
            viol.append(V('innovation',
                          f"normalised innovation {j} of {name} (applied at grid time "
                          f"{float(gt)!r}): filter {fv.tolist()}, reference estimator "
                          f"{v.tolist()} (abs error {d:.2e} > {TOL:g})",
                          'innovation/value'))
            break
    met['max_innov_err'] = worst_i
    met['grid_points'] = len(grid)
    met['blocks'] = len(assoc)
    met['n_states'] = int(xs.shape[1])
    return viol, met


def execute(sc):
    m = FW.materialise(sc)
    sweep = sc['knobs'].get('noise_sweep_before')
    if sweep:
        # not judged: the same data with every noise density multiplied
        import copy
        pre = copy.deepcopy(sc)
        for w in ('gyro_model', 'accel_model'):
            p_ = pre['knobs'][w]
            if p_:
                for key in ('noise', 'bias_walk'):
                    if p_.get(key) is not None:
                        p_[key] = (np.asarray(p_[key], dtype=float) * sweep).tolist() \
                            if isinstance(p_[key], list) else float(p_[key]) * sweep
        pre['knobs'].pop('noise_sweep_before', None)
        FW.run_filter(pre, FW.materialise(pre))
    if sc['knobs'].get('feedback_run_before'):
        # not judged: the feedback filter on the same data with the SAME sensor-model and
        # measurement objects; it leaves estimates in the models, which each run resets
        kw0 = FW.filter_kwargs(sc, m)
        FW.run_feedback_first(sc, m, kw0)
        FW.reset_spies(m)
        out = FW.run_filter(sc, m, reuse=kw0)
    else:
        out = FW.run_filter(sc, m)
    met = {}
    if out.error_class is not None:
        viol = [V('no-result', f"feedforward filter did not return: {out.error}",
                  f"no-result/{out.error_class}")]
    else:
        viol, met = compare(sc, m, out.result)
        if sc['knobs'].get('rerun') in (True, 'same', 'prefix') and not viol:
            # second run with the SAME measurement and sensor-model objects: it must equal
            # the estimator just the same
            FW.reset_spies(m)
            out = FW.run_filter(sc, m, reuse=out.kwargs)
            if out.error_class is not None:
                viol = [V('no-result', "(second run with the same objects) feedforward "
                                       f"filter did not return: {out.error}",
                          f"rerun/no-result/{out.error_class}")]
            else:
                viol, _met2 = compare(sc, m, out.result)
                for v in viol:
                    v['detail'] = "(second run with the same measurement and model " \
                                  "objects) " + v['detail']
                    v['key'] = 'rerun/' + v['key']
    kn = sc['knobs']
    probes = {}
    for which in ('gyro_model', 'accel_model'):
        p = kn[which]
        if p and p.get('bias_walk') is not None:
            probes['bias_walk_state'] = 1
        if p and p.get('scale_misal_sd') is not None:
            probes['scale_misalignment_state'] = 1
        if p and isinstance(p.get('bias_sd'), list):
            probes['per_axis_enable_mask'] = 1
    if not kn['with_altitude']:
        probes['two_d_mode'] = 1
    if kn.get('nominal') == 'reference':
        probes['nominal_is_reference'] = 1
    if not kn.get('increments_given', True):
        probes['increments_none'] = 1
    if met.get('blocks', 0) >= 3:
        probes['three_or_more_blocks'] = 1
    if kn.get('rerun'):
        probes['second_run_same_objects'] = 1
    if kn.get('noise_sweep_before'):
        probes['earlier_call_with_other_noise_densities'] = 1
    if kn.get('same_model_object'):
        probes['one_model_object_for_gyro_and_accel'] = 1
    if kn.get('feedback_run_before'):
        probes['feedback_run_before_with_same_objects'] = 1
    if any(s_.get('outlier') for s_ in sc['sensors']):
        probes['one_sample_grossly_wrong'] = 1
    if any(s['lever'] is not None for s in sc['sensors']):
        probes['lever_arm'] = 1
    probes.update({k: v for k, v in FW.probes(sc, m, out).items()
                   if k in ('two_in_one_interval', 'shared_stamp', 'stamp_at_start',
                            'rows_sparser_than_increments', 'step_lands_below_next_row')})
    sig = FW.signature(sc, m) + '|' + ''.join(
        'x' if kn[w] is None else ('s' if kn[w].get('scale_misal_sd') is not None else 'b')
        for w in ('gyro_model', 'accel_model'))
    return dict(violations=viol, digest=sched.result_digest(sc, m, out),
                sig=sig, nontrivial=bool(met.get('blocks', 0) or met.get('grid_points', 0) > 2),
                probes=probes, faults=FW.fault_counts(sc), sim_s=FW.sim_seconds(sc),
                ops=int(met.get('grid_points', 0) + met.get('blocks', 0)),
                extra={k: v for k, v in met.items() if k.startswith('max_')} |
                      dict(grid_points=met.get('grid_points', 0),
                           blocks=met.get('blocks', 0)))


def shrink(sc, vclass):
    def pred(c):
        return any(v['class'] == vclass for v in execute(c)['violations'])
    return shrink_filter_scenario(sc, pred, budget_s=240.0)


sample_view = _c09.sample_view

PROBES_WANTED = ['bias_walk_state', 'scale_misalignment_state', 'per_axis_enable_mask',
                 'two_d_mode', 'nominal_is_reference', 'increments_none',
                 'three_or_more_blocks', 'lever_arm', 'two_in_one_interval', 'shared_stamp',
                 'rows_sparser_than_increments', 'step_lands_below_next_row']


def describe():
    return dict(
        rule=("Each run: one seeded, fault-injected sensor world (as C10, <= 32 rows, "
              "time_step 0.2..5 s plus the degenerate regimes, random enable masks of both "
              "sensor models incl. bias walk and scale/misalignment, sigmas over 4 decades, "
              "both altitude modes, nominal in {computed, reference}) through the REAL "
              "run_feedforward_filter; its recorded grid and the delivered measurement "
              "history define a time-varying linear-Gaussian model whose one-shot "
              "Gauss-Markov solution (own code, no recursion) must reproduce every sigma "
              "(rel), estimate (sigma units) and normalised innovation (abs) within 2e-6. "
              "Non-trivial = at least one measurement block or more than two grid points. "
              "distinct = distinct interleaving signatures + sensor-model kind."),
        real=['pyins.filters.run_feedforward_filter (recursion, F/G/q assembly, initial '
              'covariance, compensation)', 'pyins.kalman.correct / compute_process_matrices',
              'pyins.inertial_sensor.EstimationModel', 'pyins.error_model.InsErrorModel '
              '(system_matrices, transforms: used as given by the reference too)',
              'pyins.measurements.* compute_matrices (used as given by the reference too)',
              'pyins.strapdown.Integrator (computed trajectory)'],
        stub=['motion, devices, clocks, fault injector', 'reference estimator '
              '(simkit/refkf.py): own expm, own Gauss-Legendre noise integral, own '
              'quaternion interpolation, batch Gaussian conditioning'],
        assumptions=[
            "Sampling, not enumeration; numerical refinement with tolerance 2e-6 "
            "(calibrated: see DESIGN.md 3.3).",
            "system_matrices, transform_to_internal/_to_output and compute_matrices are "
            "taken as the definition of the model (their correctness is C04-C06).",
            "A sample is applied at the last grid time not after it, at the pva "
            "interpolated between the two bracketing computed rows (linear position and "
            "velocity, weighted chordal mean attitude).",
            "No result (exception / step budget) on an in-domain schedule is a violation: "
            "a filter that does not return cannot equal the estimator."],
        probes_wanted=PROBES_WANTED)
