"""C10 — feedforward filter terminates and consumes every schedule exactly once."""
from . import env  # noqa: F401
from . import fworld as FW
from . import sched
from . import c09 as _c09
from .shrink import shrink_filter_scenario

PROP = 'C10'
LEVEL = 'exploration'
FILTER = 'feedforward'
TIERS = {'quick': dict(runs=1600, budget_s=150, chunk=8, selftest=4),
         'thorough': dict(runs=60000, budget_s=1500, chunk=16, selftest=12)}


def generate(run_seed, tier, index):
    return FW.generate(run_seed, FILTER, 'sched')


def execute(sc):
    m = FW.materialise(sc)
    mode = sc['knobs'].get('rerun')
    mode = 'same' if mode is True else mode
    if mode == 'prefix':
        # an earlier call over the first half of the data with the SAME measurement and
        # sensor-model objects must not change what the full run does
        kw0 = FW.filter_kwargs(sc, m)
        FW.run_prefix(sc, m, kw0)
        FW.reset_spies(m)
        out = FW.run_filter(sc, m, reuse=kw0)
        viol = sched.check_c10(sc, m, out)
        note = "(after an earlier run over the first half of the data with the same " \
               "measurement and model objects) "
    else:
        out = FW.run_filter(sc, m)
        viol = sched.check_c10(sc, m, out)
        note = ''
        if mode == 'same' and not viol:
            # the same call again with the same objects: every clause must hold again
            FW.reset_spies(m)
            out = FW.run_filter(sc, m, reuse=out.kwargs)
            viol = sched.check_c10(sc, m, out)
            note = "(second run with the same measurement and model objects) "
    twin_done = 0
    if not viol and out.error_class is None and sc.get('run_seed', 0) % 3 == 0:
        viol, twin_done = value_independence_twin(sc, m, out)
    if note:
        for v in viol:
            v['detail'] = note + v['detail']
            v['key'] = 'rerun/' + v['key']
    n_rows = len(m['computed'])
    return dict(violations=viol, digest=sched.result_digest(sc, m, out),
                sig=FW.signature(sc, m), nontrivial=FW.nontrivial(sc, m),
                probes=dict(FW.probes(sc, m, out), **({'second_run_' + str(mode): 1}
                                                       if mode else {}),
                            **({'twin_run_with_one_sample_grossly_wrong': 1}
                               if twin_done else {})), faults=FW.fault_counts(sc),
                sim_s=FW.sim_seconds(sc),
                ops=n_rows - 1 + sum(len(s['stamps']) for s in sc['sensors']),
                extra=dict(filter_lines=out.lines,
                           max_lines_over_budget=out.lines / FW.step_budget_for(sc, m)))


def value_independence_twin(sc, m, out):
    """'Every measurement sample ... is used': the filter is a linear estimator about the
    supplied trajectory, so what a sample contributes to the covariance does not depend on
    its value.  A twin run in which ONE in-span sample is replaced by a grossly wrong value
    must report bit-identical standard deviations (same operations on the same numbers: H
    and R come from the trajectory and the sensor sd, never from the measured value) and the
    same number of innovation rows.  A filter that quietly ignores the sample (an outlier
    gate, a validity test) fails this."""
    import copy
    exp = FW.expected_stamps(sc, m)
    cand = [(i, j) for i, st in enumerate(exp) for j in range(len(st))]
    if not cand or out.result is None:
        return [], 0
    i, j = cand[sc.get('run_seed', 0) // 3 % len(cand)]
    stamps = [float(x) for x in sc['sensors'][i]['stamps']]
    tw = copy.deepcopy(sc)
    tw['knobs']['rerun'] = None
    tw['sensors'][i]['outlier'] = dict(row=stamps.index(float(exp[i][j])),
                                       offset=[250.0, -120.0, 90.0])
    m2 = FW.materialise(tw)
    out2 = FW.run_filter(tw, m2)
    V = sched.V
    if out2.error_class is not None:
        return [V('sample-not-used', f"twin run with sample {j} of "
                  f"{sc['sensors'][i]['cls']} grossly wrong did not return: {out2.error}",
                  'twin/no-result')], 1
    for tab in ('trajectory_sd', 'gyro_sd', 'accel_sd'):
        a, b = getattr(out.result, tab), getattr(out2.result, tab)
        if a.shape != b.shape or a.to_numpy().tobytes() != b.to_numpy().tobytes():
            return [V('sample-not-used',
                      f"{tab} changes when the VALUE of one sample ({sc['sensors'][i]['cls']} "
                      f"at t={float(exp[i][j])!r}) is replaced by a grossly wrong one: the "
                      f"sample's information is not used the same way (a linear estimator's "
                      f"covariance does not depend on measured values)",
                      'twin/value-independence')], 1
    return [], 1


def shrink(sc, vclass):
    def pred(c):
        return any(v['class'] == vclass for v in execute(c)['violations'])
    return shrink_filter_scenario(sc, pred)


sample_view = _c09.sample_view

PROBES_WANTED = ['sample_in_last_interval', 'three_in_one_interval', 'stamp_at_start',
                 'stamp_at_end', 'shared_stamp', 'cluster_in_first_interval',
                 'cluster_in_last_interval', 'step_lands_below_next_row',
                 'rounding_makes_step_short', 'rows_sparser_than_increments',
                 'empty_table', 'all_samples_lost', 'measurements_none',
                 'measurements_empty', 'models_omitted', 'default_time_step',
                 'gps_week_scale_clock', 'negative_clock', 'clock_crosses_zero',
                 'second_run_same', 'second_run_prefix',
                 'measurement_table_not_sorted_by_time', 'interval_without_increment_rows',
                 'nominal_attitude_identical_in_consecutive_rows',
                 'a_plus_gap_rounds_off_next_stamp', 'stamp_one_ulp_from_epoch']


def describe():
    d = _c09.describe()
    d['rule'] = d['rule'].replace('run_feedback_filter', 'run_feedforward_filter') + (
        " Feedforward specifics: computed trajectory = real Integrator on the faulted "
        "increments from a perturbed start, nominal in {computed, reference}, rows "
        "optionally sub-sampled so increments are denser than rows, increments given or "
        "None.")
    d['real'][0] = 'pyins.filters.run_feedforward_filter'
    d['assumptions'][2] = ("Termination is decided as bounded liveness: <= "
                           "2000*(rows+epochs+2) executed source lines of pyins.filters.")
    d['assumptions'].append(
        "Step-length clause as stated: consecutive grid times a<b satisfy b <= fl(a + "
        "time_step) or b is the input row right after a.")
    d['probes_wanted'] = PROBES_WANTED
    return d
