"""Monitors attached to real pyins code while a simulated run proceeds.

* ``StepBudget``       deterministic step counter on the source lines of ``pyins.filters``
                       (``sys.monitoring`` LINE events, local to those code objects).
                       Non-termination becomes a replayable verdict instead of a hang.
* ``spy_class``        subclass of a real measurement class (same ``__name__``) that
                       records every ``compute_matrices`` call: the delivery history.
* ``KernelShim``       wraps the module global ``pyins.strapdown.integrate`` (the numba
                       kernel) with a capacity check on the three state buffers.
* ``digest``           sha256 over tables / arrays / scalars, byte exact.
"""
from . import env  # noqa: F401
import hashlib
import sys
import types

import numpy as np
import pandas as pd

from pyins import filters as _filters
from pyins import measurements as _measurements
from pyins import strapdown as _strapdown


class StepBudgetExceeded(Exception):
    pass


class KernelBoundsViolation(Exception):
    pass


_TOOL = 4
_tool_claimed = False


def _code_objects(module):
    out = []
    for obj in vars(module).values():
        if isinstance(obj, types.FunctionType) and obj.__module__ == module.__name__:
            out.append(obj.__code__)
    return out


class StepBudget:
    """Count executed source lines of ``pyins.filters`` and raise past the budget.

    The exception is raised from the monitoring callback and therefore appears inside
    the monitored frame, exactly where the loop is spinning.
    """

    def __init__(self, budget):
        self.budget = int(budget)
        self.count = 0
        self.codes = _code_objects(_filters)

    def _line(self, code, line):
        self.count += 1
        if self.count > self.budget:
            raise StepBudgetExceeded(
                f"more than {self.budget} source lines executed in pyins.filters "
                f"(at {code.co_name}:{line})")

    def __enter__(self):
        global _tool_claimed
        mon = sys.monitoring
        if not _tool_claimed:
            mon.use_tool_id(_TOOL, "simkit-step-budget")
            _tool_claimed = True
        mon.register_callback(_TOOL, mon.events.LINE, self._line)
        for code in self.codes:
            mon.set_local_events(_TOOL, code, mon.events.LINE)
        return self

    def __exit__(self, *exc):
        mon = sys.monitoring
        for code in self.codes:
            mon.set_local_events(_TOOL, code, 0)
        mon.register_callback(_TOOL, mon.events.LINE, None)
        return False


# ---------------------------------------------------------------------------- spies
_SPY_CACHE = {}


def spy_class(name):
    """Spy subclass of ``pyins.measurements.<name>`` with the same class name."""
    if name in _SPY_CACHE:
        return _SPY_CACHE[name]
    base = getattr(_measurements, name)

    class Spy(base):
        def __init__(self, *a, **kw):
            base.__init__(self, *a, **kw)
            self.spy_log = []
            self.spy_delivery = None      # shared, cross-sensor delivery sequence

        def compute_matrices(self, time, pva, error_model):
            ret = base.compute_matrices(self, time, pva, error_model)
            if ret is None:
                self.spy_log.append((float(time), None))
            else:
                z, H, R = ret
                self.spy_log.append((float(time),
                                     (tuple(np.shape(z)), tuple(np.shape(H)),
                                      tuple(np.shape(R)))))
                if self.spy_delivery is not None:
                    self.spy_delivery.append((float(time), base.__name__))
            return ret

    Spy.__name__ = base.__name__
    Spy.__qualname__ = base.__qualname__
    _SPY_CACHE[name] = Spy
    return Spy


# ----------------------------------------------------------------------- kernel shim
class KernelShim:
    """Replace ``pyins.strapdown.integrate`` by a bounds-checking wrapper.

    The compiled kernel writes rows ``offset+1 .. offset+len(theta)`` of ``lla``,
    ``velocity_n`` and ``mat_nb`` without bounds checks.  The shim turns a write past the
    end of any of the three buffers into ``KernelBoundsViolation`` *before* delegating
    to the real kernel.  It also counts calls and the largest row written.
    """

    def __init__(self):
        self.calls = 0
        self.grow_events = 0
        self._last_cap = None
        self.real = None

    def _shim(self, dt_array, lla, velocity_n, mat_nb, theta, dv, offset,
              with_altitude):
        self.calls += 1
        need = offset + len(theta) + 1
        caps = (len(lla), len(velocity_n), len(mat_nb))
        if need > min(caps):
            raise KernelBoundsViolation(
                f"kernel asked to write row {need - 1} but buffers hold "
                f"{caps} rows (offset={offset}, n={len(theta)})")
        if len(dt_array) != len(theta) or len(dv) != len(theta):
            raise KernelBoundsViolation("kernel argument lengths differ")
        if offset < 0:
            raise KernelBoundsViolation(f"negative kernel offset {offset}")
        for name, buf in (("lla", lla), ("velocity_n", velocity_n), ("mat_nb", mat_nb)):
            if not buf.flags.c_contiguous or not buf.flags.writeable:
                raise KernelBoundsViolation(f"buffer {name} not contiguous/writable")
        if self._last_cap is not None and caps[0] > self._last_cap:
            self.grow_events += 1
        self._last_cap = caps[0]
        return self.real(dt_array, lla, velocity_n, mat_nb, theta, dv, offset,
                         with_altitude)

    EXPECTED = ['dt_array', 'lla', 'velocity_n', 'mat_nb', 'theta', 'dv', 'offset',
                'with_altitude']

    def __enter__(self):
        # The seam is a private function: engage the shim only while it has the signature
        # the shim understands; after a refactoring of the kernel interface the monitor
        # steps aside (engaged = False) instead of misreading the arguments.
        import inspect
        self.real = getattr(_strapdown, 'integrate', None)
        self.engaged = False
        if self.real is not None:
            try:
                fn = getattr(self.real, 'py_func', self.real)
                names = list(inspect.signature(fn).parameters)
            except (TypeError, ValueError):
                names = None
            if names == self.EXPECTED:
                _strapdown.integrate = self._shim
                self.engaged = True
        return self

    def __exit__(self, *exc):
        if self.engaged:
            _strapdown.integrate = self.real
        return False

    def reinstall(self):
        """After pyins.strapdown was re-executed (module reload) the module global points
        at the real kernel again: put the shim back."""
        if self.engaged and _strapdown.integrate is not self._shim:
            self.real = _strapdown.integrate
            _strapdown.integrate = self._shim


class InitialSize:
    """Per-run capacity knob: ``Integrator.INITIAL_SIZE`` (class attribute seam)."""

    def __init__(self, size):
        self.size = int(size)

    def __enter__(self):
        self.old = _strapdown.Integrator.INITIAL_SIZE
        _strapdown.Integrator.INITIAL_SIZE = self.size
        return self

    def __exit__(self, *exc):
        _strapdown.Integrator.INITIAL_SIZE = self.old
        return False


# ---------------------------------------------------------------------------- digest
def _feed(h, obj):
    if obj is None:
        h.update(b"N")
    elif isinstance(obj, pd.DataFrame):
        h.update(b"DF")
        _feed(h, [str(c) for c in obj.columns])
        _feed(h, np.asarray(obj.index))
        _feed(h, obj.to_numpy())
        if _WITH_AXIS_NAMES[0]:
            h.update(repr((obj.index.name, obj.columns.name)).encode())
    elif isinstance(obj, pd.Series):
        h.update(b"SE")
        _feed(h, [str(c) for c in obj.index])
        _feed(h, None if obj.name is None else repr(obj.name))
        _feed(h, obj.to_numpy())
        if _WITH_AXIS_NAMES[0]:
            h.update(repr(obj.index.name).encode())
    elif isinstance(obj, pd.Index):
        _feed(h, np.asarray(obj))
        if _WITH_AXIS_NAMES[0]:
            h.update(repr(obj.name).encode())
    elif isinstance(obj, np.ndarray):
        h.update(b"A")
        h.update(str(obj.dtype).encode())
        h.update(repr(obj.shape).encode())
        if obj.dtype == object:
            for x in obj.ravel():
                _feed(h, x)
        else:
            h.update(np.ascontiguousarray(obj).tobytes())
    elif isinstance(obj, dict):
        h.update(b"D")
        for k in sorted(obj, key=str):
            _feed(h, str(k))
            _feed(h, obj[k])
    elif isinstance(obj, (list, tuple)):
        h.update(b"L%d" % len(obj))
        for x in obj:
            _feed(h, x)
    elif isinstance(obj, (float, np.floating)):
        h.update(b"F")
        h.update(np.float64(obj).tobytes())
    elif isinstance(obj, (bool, np.bool_)):
        h.update(b"B1" if obj else b"B0")
    elif isinstance(obj, (int, np.integer)):
        h.update(b"I" + str(int(obj)).encode())
    elif isinstance(obj, str):
        h.update(b"S" + obj.encode())
    elif isinstance(obj, bytes):
        h.update(b"Y" + obj)
    elif isinstance(obj, np.random.RandomState):
        h.update(b"RS")
        _feed(h, list(obj.get_state()))
    elif type(obj).__name__ == 'Rotation' and hasattr(obj, 'as_quat'):
        h.update(b"ROT")
        _feed(h, np.asarray(obj.as_quat()))
    elif isinstance(obj, (set, frozenset)):
        _feed(h, sorted(obj, key=repr))
    elif type(obj).__name__ == 'Integrator' and hasattr(obj, 'trajectory'):
        # observable state only: the buffers beyond the rows held are uninitialised memory.
        # The private buffers are included when they exist under today's names (a digest
        # that sees more); the check never depends on them being there.
        h.update(b"INTEGRATOR")
        _feed(h, integrator_state(obj))
    elif has_attrs(obj):
        h.update(b"O" + type(obj).__name__.encode())
        if _depth[0] > 6:
            h.update(b"...")
        else:
            _depth[0] += 1
            try:
                d = {k: v for k, v in obj_attrs(obj).items() if k not in _SKIP_ATTRS
                     # argument snapshots look at what the caller can see and owns: private
                     # attributes (lazy caches ...) are judged through behaviour instead
                     and not (_WITH_AXIS_NAMES[0] and k.startswith('_'))}
                _feed(h, d)
            finally:
                _depth[0] -= 1
    elif callable(obj):
        h.update(b"C" + getattr(obj, '__qualname__', type(obj).__name__).encode())
    else:
        h.update(b"R" + repr(obj).encode())


_depth = [0]
_SKIP_ATTRS = {'spy_log', 'spy_delivery'}
# axis names (index.name, columns.name) are metadata a caller owns too; they are part of
# the ARGUMENT SNAPSHOT digests only (result digests stay independent of them)
_WITH_AXIS_NAMES = [False]


def snapshot_digest(*objs):
    _WITH_AXIS_NAMES[0] = True
    try:
        return digest(*objs)
    finally:
        _WITH_AXIS_NAMES[0] = False


def obj_attrs(obj):
    """Instance attributes of an object, whether it keeps them in __dict__ or __slots__."""
    out = {}
    for klass in type(obj).__mro__:
        slots = klass.__dict__.get('__slots__', ())
        if isinstance(slots, str):
            slots = (slots,)
        for name in slots:
            if name not in ('__dict__', '__weakref__') and hasattr(obj, name):
                try:
                    out[name] = getattr(obj, name)
                except AttributeError:
                    pass
    if hasattr(obj, '__dict__'):
        out.update(vars(obj))
    return out


def has_attrs(obj):
    if isinstance(obj, (type, pd.DataFrame, pd.Series, pd.Index, np.ndarray)) or callable(obj):
        return False
    if hasattr(obj, '__dict__'):
        return True
    return any('__slots__' in k.__dict__ for k in type(obj).__mro__ if k is not object) and \
        type(obj).__module__.startswith('pyins')


def integrator_state(obj):
    """Observable state of a strapdown.Integrator: the public trajectory, plus the rows
    held in the private state buffers when they exist under their current names."""
    tr = obj.trajectory
    n = len(tr)
    out = [tr]
    for name in ('lla', 'velocity_n', 'mat_nb'):
        buf = getattr(obj, name, None)
        if isinstance(buf, np.ndarray) and buf.ndim >= 2 and len(buf) >= n:
            out.append(np.array(buf[:n]))
    for name in ('with_altitude',):
        if hasattr(obj, name):
            out.append(bool(getattr(obj, name)))
    return out


def integrator_capacity(obj):
    """Rows the private buffers can hold, or -1 when not observable (informational)."""
    buf = getattr(obj, 'lla', None)
    return len(buf) if isinstance(buf, np.ndarray) else -1


def digest(*objs):
    h = hashlib.sha256()
    for o in objs:
        _feed(h, o)
    return h.hexdigest()


def bits(a):
    """Byte string of an array/Index as float64 — for bit-exact comparisons."""
    return np.ascontiguousarray(np.asarray(a, dtype=np.float64)).tobytes()


def same_bits(a, b):
    a = np.asarray(a, dtype=np.float64)
    b = np.asarray(b, dtype=np.float64)
    return a.shape == b.shape and bits(a) == bits(b)
