"""C02 — integrator result is independent of call history (chunks, predict, restart)."""
from . import env  # noqa: F401
from . import hist

PROP = 'C02'
LEVEL = 'exploration'
TIERS = {'quick': dict(runs=4000, budget_s=150, chunk=50, selftest=6),
         'thorough': dict(runs=400000, budget_s=1500, chunk=200, selftest=16)}

# second, independent generator (simkit/hyp.py): (processes, examples per process) per tier
HYP = dict(want='C02', force_2d=False, quick=(16, 120), thorough=(16, 4000))


def generate(run_seed, tier, index):
    return hist.generate(run_seed)


def execute(sc):
    v02, _v13, st, dg = hist.execute(sc, want='C02')
    probes = {}
    if st['grow']:
        probes['buffer_growth'] = 1
    if st['grow_in_predict']:
        probes['growth_during_predict'] = 1
    if st['straddle']:
        probes['chunk_straddles_capacity'] = 1
    if st['empty_chunks']:
        probes['empty_chunk'] = 1
    if st['set_pva']:
        probes['restart_after_set_pva'] = 1
    if st['set_pva'] and not sc['knobs']['with_altitude']:
        probes['restart_in_2d_mode'] = 1
    if st['predicts']:
        probes['predict_interleaved'] = 1
    if st['keep_att']:
        probes['overwrite_keeping_held_attitude'] = 1
    if st['blind']:
        probes['blind_monitor_mode'] = 1
    if st['long_chunk']:
        probes['chunk_of_100_or_more_rows'] = 1
    if st['stamping'] == 'left':
        probes['first_increment_stamp_equals_start_time'] = 1
    if st['stamping'] == 'dup':
        probes['increment_with_dt_zero'] = 1
    if st['zero_predict']:
        probes['predict_over_zero_fraction'] = 1
    if st['stamping'] == 'int_ns':
        probes['integer_nanosecond_stamps_beyond_2_53'] = 1
    if st['inc_cols']:
        probes['increments_columns_reordered_or_extra'] = 1
    if st.get('foreign_name'):
        probes['set_pva_series_named_otherwise_than_current_time'] = 1
    if sc['perturb'].get('zero_rows'):
        probes['increment_rows_exactly_zero'] = 1
    return dict(violations=v02, digest=dg, sig=st['sig'],
                nontrivial=(st['ops'] > 1 and (st['grow'] or st['set_pva'] or st['predicts']
                                               or st['empty_chunks'])),
                probes=probes, faults={'capacity_knob_small': int(
                    sc['knobs']['initial_size'] < 10000),
                    'state_overwrite': st['set_pva'],
                    'buffer_growth': st['grow']},
                sim_s=float(sc['imu']['stamps'][-1] - sc['imu']['stamps'][0]),
                ops=st['ops'], extra=dict(rows_integrated=st['rows'],
                                          kernel_calls=st.get('kernel_calls', 0)))


def shrink(sc, vclass):
    def pred(c):
        return any(v['class'] == vclass for v in execute(c)['violations'])
    return hist.shrink(sc, pred)


def sample_view(sc):
    return dict(knobs=sc['knobs'], n_increments=len(sc['imu']['stamps']) - 1,
                perturb=sc['perturb'], initial=sc['initial'],
                ops=[op if op[0] != 'set_pva' else ['set_pva', '<9 numbers>']
                     for op in sc['ops']])


PROBES_WANTED = ['buffer_growth', 'growth_during_predict', 'chunk_straddles_capacity',
                 'empty_chunk', 'restart_after_set_pva', 'restart_in_2d_mode',
                 'predict_interleaved', 'overwrite_keeping_held_attitude',
                 'blind_monitor_mode', 'chunk_of_100_or_more_rows',
                 'first_increment_stamp_equals_start_time', 'increment_with_dt_zero',
                 'predict_over_zero_fraction', 'integer_nanosecond_stamps_beyond_2_53',
                 'increments_columns_reordered_or_extra',
                 'set_pva_series_named_otherwise_than_current_time',
                 'increment_rows_exactly_zero']


def describe():
    return dict(
        rule=("Each run: a seeded call history (3-40 operations drawn from integrate(chunk "
              "of 0/1/2/3/5/8/13/rest rows), predict(next row), predict(scaled row), "
              "get_pva, get_time, set_pva(random state), fix_position (read state, edit "
              "position/velocity, write back with the held angles), set_pva(get_pva())) on "
              "one REAL Integrator; 12 % long histories (120-330 rows, chunks of 100+); half "
              "the histories in BLIND monitor mode (only returned values are inspected, the "
              "trajectory once at the end); the "
              "capacity knob INITIAL_SIZE in {1,2,3,4,5,7,8,16,10000}, both altitude modes, "
              "perturbed increments, irregular dt, odd clock origins; after every operation "
              "the observable state is compared bitwise with a reference model (fresh "
              "integrator from the segment's start state, one integrate call, capacity "
              "never grows); the kernel seam is bounds-checked. Non-trivial = history with "
              "buffer growth, a restart, a predict or an empty chunk. distinct = distinct "
              "sequences of (op, chunk-size class, capacity-crossed?) with mode and "
              "capacity."),
        real=['pyins.strapdown.Integrator (all five public operations)',
              'pyins._numba_integrate.integrate (compiled kernel, behind a bounds shim)',
              'pyins.strapdown.compute_increments_from_imu', 'pyins.transform'],
        stub=['motion / IMU signals and sampling clock', 'increment perturbations',
              'overwriting states'],
        assumptions=[
            "Sampling, not enumeration.",
            "Bitwise equality is sound because chunked and single-shot executions perform "
            "the same floating-point operations row by row in the same order.",
            "In no-altitude mode the row overwritten by set_pva may read back with VD=0 "
            "(the property speaks about the continuation).",
            "predict is only issued while increments remain; states stay inside "
            "|pitch|<=75 deg, |lat|<=82 deg, speed<=300 m/s."],
        probes_wanted=PROBES_WANTED)
