"""Process environment for every simkit entry point.

Imported first by everything else.  It pins the numerical libraries to one thread
(determinism of BLAS reductions), puts the repository under test at the front of
``sys.path`` and checks that ``pyins`` really was imported from there, so that a check
can never silently test an installed copy instead of ``/repo``'s working tree.
"""
import os
import sys

for _k in ("OPENBLAS_NUM_THREADS", "OMP_NUM_THREADS", "MKL_NUM_THREADS",
           "NUMEXPR_NUM_THREADS", "VECLIB_MAXIMUM_THREADS", "NUMBA_NUM_THREADS"):
    os.environ[_k] = "1"
os.environ.setdefault("PYTHONDONTWRITEBYTECODE", "1")
sys.dont_write_bytecode = True

VERIF_DIR = os.path.dirname(os.path.dirname(os.path.abspath(__file__)))
REPO = os.path.realpath(os.environ.get("VERIF_REPO", "/repo"))
GUARD = "PYINS_VERIF"          # named in MANIFEST.hooks; no source hook uses it today
os.environ.setdefault(GUARD, "1")

if REPO not in sys.path[:1]:
    sys.path.insert(0, REPO)

import warnings  # noqa: E402

warnings.filterwarnings("ignore")

import numpy as np  # noqa: E402
import pandas as pd  # noqa: E402
import pyins  # noqa: E402

_where = os.path.realpath(os.path.dirname(os.path.dirname(pyins.__file__)))
if _where != REPO:
    raise SystemExit(f"HARNESS-ERROR: pyins imported from {_where}, expected {REPO}")

np.seterr(all="ignore")


def versions():
    import numba
    import scipy
    return {"python": sys.version.split()[0], "numpy": np.__version__,
            "scipy": scipy.__version__, "pandas": pd.__version__,
            "numba": numba.__version__, "repo": REPO}
