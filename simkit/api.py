"""Catalogue of call templates over the public API of the ten pyins modules (C19).

A template draws its arguments from a live value pool (base world tables plus the results
of earlier calls of the same program, so that aliasing between a returned object and a
caller's array is exercised) and describes, per argument, which *forms* the documentation
allows (`array_like` -> ndarray / list / tuple / Fortran-ordered / non-contiguous view /
Series / DataFrame, scalar-vs-stacked), so that the executor can vary them.
"""
from . import env  # noqa: F401
import numpy as np
import pandas as pd
from scipy.spatial.transform import Rotation

import pyins
from pyins import (earth, error_model, filters, inertial_sensor, kalman, measurements,
                   sim, strapdown, transform, util)
from pyins.util import (LLA_COLS, VEL_COLS, RPH_COLS, RATE_COLS, GYRO_COLS, ACCEL_COLS,
                        THETA_COLS, DV_COLS, TRAJECTORY_COLS, TRAJECTORY_ERROR_COLS)

from . import world as W

INC_COLS = ['dt'] + THETA_COLS + DV_COLS
BODY_COLS = ['VX', 'VY', 'VZ']


class Arg:
    """One argument: canonical value + the kind that decides which forms are legal."""
    __slots__ = ('value', 'kind', 'cols', 'ignore')

    def __init__(self, value, kind='plain', cols=None, ignore=()):
        self.value = value
        self.kind = kind          # vec | vec3 | n3 | s33 | plain | self | selfpure
        self.cols = cols          # column names when a DataFrame/Series form is natural
        self.ignore = ignore      # attributes of an object argument that may change


class Call:
    def __init__(self, name, fn, args, kwargs=None, out=(), row0=False, schema=None,
                 expect_index=None, row0_p=0.2):
        self.row0_p = row0_p      # probability of the scalar-vs-stacked form
        self.name = name
        self.fn = fn
        self.args = args
        self.kwargs = kwargs or {}
        self.out = out            # pool kinds of the (tuple of) results; None = skip
        self.row0 = row0          # scalar/single form == row 0 of the stacked result
        self.schema = schema      # kind name(s) to validate, parallel to results
        self.expect_index = expect_index


FORMS = {
    'vec': ['ndarray', 'list', 'tuple', 'noncontig', 'series'],
    'vec3': ['ndarray', 'list', 'tuple', 'noncontig'],
    'vec3s': ['ndarray', 'list', 'tuple', 'series'],
    'n3': ['ndarray', 'list', 'fortran', 'noncontig', 'dataframe'],
    'n3a': ['ndarray', 'list', 'fortran', 'noncontig'],
    's33': ['ndarray', 'list', 'noncontig'],
    'm33': ['ndarray', 'list', 'fortran'],
    # a pyins table addressed by column LABELS: the same table with its columns in another
    # order, or with an extra leading column (as read from a log file)
    'table': ['ndarray', 'cols_permuted', 'extra_leading_col', 'cols_reversed'],
    # a Pva Series addressed by LABELS: the same state with its labels in another order
    'pva': ['ndarray', 'labels_permuted', 'labels_reversed'],
    # an integer seed: Python int or a numpy integer (an element of an array of seeds)
    'seed': ['ndarray', 'np_int64', 'np_int32'],
    # an array whose values happen to be whole numbers: float64, int64 or a list of ints
    'wholes': ['ndarray', 'int64', 'int_list'],
}


def apply_form(value, kind, form, cols=None, index=None):
    if form == 'ndarray' or kind not in FORMS:
        return value
    if kind == 'seed':
        return np.int64(value) if form == 'np_int64' else np.int32(value)
    if kind == 'wholes':
        ints = np.asarray(value).astype(np.int64)
        return ints if form == 'int64' else ints.tolist()
    if kind == 'pva':
        ser = value
        labels = list(ser.index)
        if form == 'labels_reversed':
            return ser[labels[::-1]].copy()
        k = max(1, len(labels) // 3)
        return ser[labels[k:] + labels[:k]].copy()
    if kind == 'table':
        df = value
        if form == 'cols_reversed':
            return df[list(df.columns[::-1])].copy()
        if form == 'cols_permuted':
            cols = list(df.columns)
            k = max(1, len(cols) // 2)
            return df[cols[k:] + cols[:k]].copy()
        if form == 'extra_leading_col':
            out = df.copy()
            out.insert(0, 'temperature', 20.0 + 0.01 * np.arange(len(out)))
            return out
        return value
    a = np.asarray(value, dtype=float)
    if form == 'list':
        return a.tolist()
    if form == 'tuple':
        return tuple(a.tolist())
    if form == 'fortran':
        return np.asfortranarray(a.copy())
    if form == 'noncontig':
        big = np.zeros(a.shape[:-1] + (2 * a.shape[-1],)) if a.ndim else None
        if big is None:
            return value
        big[..., ::2] = a
        return big[..., ::2]
    if form == 'series':
        if a.ndim != 1:
            return value
        idx = cols if (cols is not None and len(cols) == len(a)) else \
            (index if index is not None and len(index) == len(a) else None)
        return pd.Series(a.copy(), index=idx)
    if form == 'dataframe':
        if a.ndim != 2 or cols is None:
            return value
        return pd.DataFrame(a.copy(), columns=cols,
                            index=index if index is not None and len(index) == len(a)
                            else None)
    return value


def row0_of(value, kind):
    a = np.asarray(value, dtype=float)
    if kind == 'vec':
        return float(a[0])
    if kind in ('n3', 'n3a', 's33'):
        return a[0].copy()
    return value


# ======================================================================== context
class Context:
    """Base values of one program, from a seeded stub world; plus the live pool."""

    def __init__(self, r):
        for _ in range(40):
            if self._build(r):
                return
        raise RuntimeError("C19 context outside the domain fence")

    def _build(self, r):
        self.wd = W.make_world(r)
        self.n = int(r.integers(8, 21))
        self.dt = [0.05, 0.1, 0.2][int(r.integers(3))]
        t0 = [0.0, 17.5, 4.0e5][int(r.integers(3))]
        self.times = t0 + self.dt * np.arange(self.n)
        self.stype = ['rate', 'increment'][int(r.integers(2))]
        imu = W.synth_imu(self.times, self.wd, self.stype)
        inc = strapdown.compute_increments_from_imu(imu, self.stype)
        pva0 = W.true_initial_pva(self.wd, self.times[0])
        traj = strapdown.Integrator(pva0, True).integrate(inc)
        if not W.in_fence(traj):
            return False
        # the time index of the caller's tables is called 'time', something else, or nothing
        nm = ['time', 'time', None, 't'][int(r.integers(4))]
        imu.index.name = nm
        inc = inc.copy()
        inc.index = pd.Index(np.asarray(inc.index), name=[nm, None][int(r.integers(2))])
        self.pool = {}
        self.add('imu', imu)
        self.add('increments', inc)
        self.add('trajectory', traj)
        self.add('pva', traj.iloc[0].copy())
        self.add('pva', traj.iloc[self.n // 2].copy())
        self.seed_counter = 0
        return True

    def add(self, kind, value):
        self.pool.setdefault(kind, []).append(value)
        if len(self.pool[kind]) > 6:
            self.pool[kind].pop(1)

    def pick(self, r, kind):
        items = self.pool[kind]
        return items[int(r.integers(len(items)))]

    # ---- derived canonical values
    def traj(self, r):
        return self.pick(r, 'trajectory')

    def pva(self, r):
        return self.pick(r, 'pva')

    def lla(self, r):
        return self.traj(r)[LLA_COLS].to_numpy().copy()

    def lat(self, r):
        return self.traj(r)['lat'].to_numpy().copy()

    def alt(self, r):
        return self.traj(r)['alt'].to_numpy().copy()

    def rph(self, r):
        return self.traj(r)[RPH_COLS].to_numpy().copy()

    def vel(self, r):
        return self.traj(r)[VEL_COLS].to_numpy().copy()

    def vec3(self, r, scale=1.0):
        return r.uniform(-1, 1, 3) * scale

    def n3(self, r, n=None, scale=1.0):
        return r.uniform(-1, 1, (n or self.n, 3)) * scale

    def s33(self, r, n=None):
        return r.uniform(-1, 1, (n or self.n, 3, 3))

    def rotmats(self, r, n=None):
        return Rotation.from_rotvec(r.uniform(-1, 1, (n or self.n, 3))).as_matrix()

    def seed(self, r):
        return int(r.integers(2 ** 31))


def _pva_with_rates(cx, r):
    p = cx.pva(r)
    return pd.concat([p, pd.Series(cx.vec3(r, 0.2), index=RATE_COLS)])


def _model_params(r, kind):
    lo, hi = (-6.0, -3.0) if kind == 'gyro' else (-4.0, -1.0)

    def dec():
        return float(10 ** r.uniform(lo, hi))
    form = int(r.integers(3))
    if form == 0:
        return dict(bias_sd=dec(), noise=dec(), bias_walk=None, scale_misal_sd=None)
    if form == 1:
        return dict(bias_sd=dec(), noise=None, bias_walk=dec() * 0.1,
                    scale_misal_sd=float(10 ** r.uniform(-4, -2)))
    off = [0.0, -1.0][int(r.integers(2))]     # non-positive entries disable an axis
    b = np.array([dec() if r.random() < 0.7 else off for _ in range(3)])
    w = np.array([dec() * 0.1 if (x > 0 and r.random() < 0.5) else 0.0 for x in b])
    nz = np.array([dec() if r.random() < 0.7 else off for _ in range(3)])
    sm = np.array([[float(10 ** r.uniform(-4, -2)) if r.random() < 0.3 else off
                    for _ in range(3)] for _ in range(3)])
    return dict(bias_sd=b, noise=nz, bias_walk=w, scale_misal_sd=sm)


def _est_model(cx, r, kind='gyro'):
    if cx.pool.get('est_model') and r.random() < 0.5:
        return cx.pick(r, 'est_model')
    return inertial_sensor.EstimationModel(**_model_params(r, kind))


def _err_model(cx, r):
    if cx.pool.get('error_model') and r.random() < 0.5:
        return cx.pick(r, 'error_model')
    return error_model.InsErrorModel(bool(r.random() < 0.5))


def _meas_table(cx, r, kind):
    traj = cx.traj(r)
    k = int(r.integers(1, min(5, len(traj)) + 1))
    idx = np.sort(r.choice(len(traj), size=k, replace=False))
    rows = traj.iloc[idx]
    if kind == 'Position':
        return rows[LLA_COLS].copy()
    if kind == 'NedVelocity':
        return rows[VEL_COLS].copy()
    C = transform.mat_from_rph(rows[RPH_COLS])
    return pd.DataFrame(util.mv_prod(C, rows[VEL_COLS], at=True), index=rows.index,
                        columns=BODY_COLS)


def _meas_obj(cx, r, kind=None):
    if cx.pool.get('measurement') and r.random() < 0.4:
        return cx.pick(r, 'measurement')
    kind = kind or ['Position', 'NedVelocity', 'BodyVelocity'][int(r.integers(3))]
    data = _meas_table(cx, r, kind)
    sd = float(10 ** r.uniform(-1, 0.5))
    if kind == 'BodyVelocity':
        return measurements.BodyVelocity(data, sd)
    lever = cx.vec3(r) if r.random() < 0.5 else None
    return getattr(measurements, kind)(data, sd, lever)


def _integrator(cx, r):
    if cx.pool.get('integrator') and r.random() < 0.7:
        return cx.pick(r, 'integrator')
    return strapdown.Integrator(cx.pva(r), bool(r.random() < 0.5))


def _next_increments(cx, r, it, k):
    """k increments that continue integrator ``it`` in time."""
    inc = cx.pool['increments'][0]
    t = it.get_time()
    later = inc[inc.index > t]
    if len(later) < k:
        # shift a chunk of the base table behind the integrator's clock
        chunk = inc.iloc[:max(k, 1)].copy()
        chunk.index = t + np.cumsum(chunk['dt'].to_numpy())
        return chunk.iloc[:k]
    return later.iloc[:k]


# ===================================================================== templates
T = {}


def template(name):
    def deco(f):
        T[name] = f
        return f
    return deco


# ---------------------------------------------------------------- earth
def _latalt(cx, r):
    tr = cx.traj(r)
    return [Arg(tr['lat'].to_numpy().copy(), 'vec'), Arg(tr['alt'].to_numpy().copy(), 'vec')]


@template('earth.principal_radii')
def _(cx, r):
    return Call('earth.principal_radii', earth.principal_radii,
                _latalt(cx, r), row0=True)


@template('earth.gravity')
def _(cx, r):
    return Call('earth.gravity', earth.gravity,
                _latalt(cx, r), row0=True)


@template('earth.gravity_n')
def _(cx, r):
    return Call('earth.gravity_n', earth.gravity_n,
                _latalt(cx, r), row0=True)


@template('earth.gravitation_ecef')
def _(cx, r):
    return Call('earth.gravitation_ecef', earth.gravitation_ecef,
                [Arg(cx.lla(r), 'n3', LLA_COLS)], row0=True)


@template('earth.curvature_matrix')
def _(cx, r):
    return Call('earth.curvature_matrix', earth.curvature_matrix,
                _latalt(cx, r), row0=True)


@template('earth.rate_n')
def _(cx, r):
    return Call('earth.rate_n', earth.rate_n, [Arg(cx.lat(r), 'vec')], row0=True)


# ------------------------------------------------------------ transform
@template('transform.lla_to_ecef')
def _(cx, r):
    return Call('transform.lla_to_ecef', transform.lla_to_ecef,
                [Arg(cx.lla(r), 'n3', LLA_COLS)], out=('ecef',), row0=True)


@template('transform.ecef_to_lla')
def _(cx, r):
    r_e = transform.lla_to_ecef(cx.lla(r))
    if r.random() < 0.4:
        # coordinates that are whole metres, as floats / integers / a list of integers
        return Call('transform.ecef_to_lla[whole metres]', transform.ecef_to_lla,
                    [Arg(np.round(r_e) + 0.0, 'wholes')])   # (+ 0.0: no negative zeros -
        # an integer form cannot carry one, and atan2(-0.0, -x) = -180 deg vs
        # atan2(0, -x) = +180 deg on the antimeridian would be a difference of the INPUT)
    return Call('transform.ecef_to_lla', transform.ecef_to_lla, [Arg(r_e, 'plain')],
                row0=False)


@template('transform.lla_to_ned')
def _(cx, r):
    lla = cx.lla(r)
    if r.random() < 0.4:
        df = cx.traj(r)[LLA_COLS].copy()
        return Call('transform.lla_to_ned[DataFrame]', transform.lla_to_ned,
                    [Arg(df, 'plain'),
                     Arg(None if r.random() < 0.5 else lla[1].copy(), 'vec3')])
    origin = None if r.random() < 0.4 else lla[int(r.integers(len(lla)))].copy()
    return Call('transform.lla_to_ned', transform.lla_to_ned,
                [Arg(lla, 'n3a'), Arg(origin, 'vec3' if origin is not None else 'plain')])


@template('transform.perturb_lla')
def _(cx, r):
    lla = cx.lla(r)
    return Call('transform.perturb_lla', transform.perturb_lla,
                [Arg(lla, 'n3', LLA_COLS), Arg(cx.n3(r, len(lla), 50.0), 'n3a')],
                row0=True)


@template('transform.translate_trajectory')
def _(cx, r):
    if r.random() < 0.5:
        tr = cx.traj(r)
        if r.random() < 0.5:
            tr = tr.copy()
            tr[RATE_COLS] = cx.n3(r, len(tr), 0.2)
        return Call('transform.translate_trajectory', transform.translate_trajectory,
                    [Arg(tr, 'plain'), Arg(cx.vec3(r, 2.0), 'vec3')])
    p = cx.pva(r) if r.random() < 0.5 else _pva_with_rates(cx, r)
    return Call('transform.translate_trajectory[Pva]', transform.translate_trajectory,
                [Arg(p, 'plain'), Arg(cx.vec3(r, 2.0), 'vec3')])


@template('transform.compute_lla_difference')
def _(cx, r):
    lla = cx.lla(r)
    return Call('transform.compute_lla_difference', transform.compute_lla_difference,
                [Arg(lla, 'n3', LLA_COLS),
                 Arg(transform.perturb_lla(lla, cx.n3(r, len(lla), 30.0)), 'n3', LLA_COLS)],
                row0=True)


@template('transform.resample_state')
def _(cx, r):
    tr = cx.traj(r)
    t = np.sort(r.uniform(tr.index[0] - 0.1, tr.index[-1] + 0.1, int(r.integers(1, 9))))
    if r.random() < 0.3:
        t = np.r_[t, tr.index[int(r.integers(len(tr)))]]
    if r.random() < 0.5:
        t = t[r.permutation(len(t))]      # the function sorts; the caller need not
    state = tr if r.random() < 0.6 else tr[[c for c in tr.columns
                                            if c not in RPH_COLS or r.random() < 2]]
    if r.random() < 0.3:
        state = tr[LLA_COLS + VEL_COLS]
    return Call('transform.resample_state', transform.resample_state,
                [Arg(state, 'plain'), Arg(t, 'vec')])


@template('transform.compute_state_difference')
def _(cx, r):
    a = cx.traj(r)
    form = int(r.integers(4))
    if form == 0:
        b = cx.traj(r)
        return Call('transform.compute_state_difference', transform.compute_state_difference,
                    [Arg(a, 'plain'), Arg(b, 'plain')], schema=('traj_error',))
    if form == 1:
        b = a.iloc[::2]
        first, second = (a, b) if r.random() < 0.5 else (b, a)
        return Call('transform.compute_state_difference[nested]',
                    transform.compute_state_difference,
                    [Arg(first, 'plain'), Arg(second, 'plain')], schema=('traj_error',))
    if form == 2:
        return Call('transform.compute_state_difference[Series]',
                    transform.compute_state_difference,
                    [Arg(cx.pva(r), 'pva'), Arg(cx.pva(r), 'pva')])
    if r.random() < 0.5:
        # the same sampling, but the second table's stamps went through a text log
        # (nominally equal, not bitwise equal)
        b = a.copy()
        idx = np.asarray(a.index, dtype=float)
        b.index = pd.Index(idx * (1.0 + 3e-16 * r.integers(-2, 3, len(idx))) +
                           1e-13 * r.integers(-3, 4, len(idx)), name=a.index.name)
        first_idx = np.asarray(a.index, dtype=float)

        def no_holes(res, first_idx=first_idx):
            if not isinstance(res, pd.DataFrame):
                return f"difference is {type(res).__name__}"
            if not np.isfinite(res.to_numpy(dtype=float)).all():
                return "difference of two complete tables contains NaN"
            got = np.asarray(res.index, dtype=float)
            if len(got) > len(first_idx):
                return (f"difference of two {len(first_idx)}-row tables on the same sampling "
                        f"has {len(got)} rows")
            return None
        return Call('transform.compute_state_difference[jittered stamps]',
                    transform.compute_state_difference,
                    [Arg(a, 'plain'), Arg(b, 'plain')], schema=(no_holes,))
    cols = VEL_COLS + RPH_COLS
    return Call('transform.compute_state_difference[subset]',
                transform.compute_state_difference,
                [Arg(a[cols], 'plain'), Arg(cx.traj(r)[cols], 'plain')])


@template('transform.smooth_rotations')
def _(cx, r):
    rot = Rotation.from_euler('xyz', cx.rph(r), True)
    return Call('transform.smooth_rotations', transform.smooth_rotations,
                [Arg(rot, 'plain'), Arg(cx.dt, 'plain'),
                 Arg(cx.dt * float(r.uniform(2.2, 3.4)), 'plain')])


@template('transform.smooth_state')
def _(cx, r):
    tr = cx.pool['trajectory'][0]
    return Call('transform.smooth_state', transform.smooth_state,
                [Arg(tr, 'plain'), Arg(cx.dt * float(r.uniform(2.2, 3.4)), 'plain')])


@template('transform.mat_en_from_ll')
def _(cx, r):
    lla = cx.lla(r)
    return Call('transform.mat_en_from_ll', transform.mat_en_from_ll,
                [Arg(lla[:, 0].copy(), 'vec'), Arg(lla[:, 1].copy(), 'vec')], row0=True)


@template('transform.mat_from_rph')
def _(cx, r):
    return Call('transform.mat_from_rph', transform.mat_from_rph,
                [Arg(cx.rph(r), 'n3', RPH_COLS)], out=('rotmats',), row0=True)


@template('transform.mat_to_rph')
def _(cx, r):
    return Call('transform.mat_to_rph', transform.mat_to_rph,
                [Arg(cx.rotmats(r), 's33')], row0=True)


# ----------------------------------------------------------------- util
@template('util.mm_prod')
def _(cx, r):
    return Call('util.mm_prod', util.mm_prod,
                [Arg(cx.s33(r), 's33'), Arg(cx.s33(r), 's33')],
                dict(at=Arg(bool(r.random() < 0.5)), bt=Arg(bool(r.random() < 0.5))),
                row0=True)


@template('util.mm_prod[broadcast]')
def _(cx, r):
    a, b = cx.s33(r), cx.s33(r, 1)[0]
    args = [Arg(a, 's33'), Arg(b, 'm33')] if r.random() < 0.5 else [Arg(b, 'm33'),
                                                                   Arg(a, 's33')]
    return Call('util.mm_prod[broadcast]', util.mm_prod, args)


@template('util.mm_prod_symmetric')
def _(cx, r):
    return Call('util.mm_prod_symmetric', util.mm_prod_symmetric,
                [Arg(cx.s33(r), 's33'), Arg(cx.s33(r), 's33')], row0=True)


@template('util.mv_prod')
def _(cx, r):
    return Call('util.mv_prod', util.mv_prod,
                [Arg(cx.s33(r), 's33'), Arg(cx.n3(r), 'plain')],
                dict(at=Arg(bool(r.random() < 0.5))))


@template('util.skew_matrix')
def _(cx, r):
    return Call('util.skew_matrix', util.skew_matrix, [Arg(cx.n3(r), 'n3', VEL_COLS)],
                row0=True)


@template('util.compute_rms')
def _(cx, r):
    v = cx.n3(r) if r.random() < 0.5 else cx.traj(r)[VEL_COLS]
    return Call('util.compute_rms', util.compute_rms, [Arg(v, 'plain')])


@template('util.to_180_range')
def _(cx, r):
    form = int(r.integers(4))
    a = r.uniform(-720, 720, cx.n)
    # boundary angles: exact multiples of 180 (the range is half-open on one side)
    special = np.array([180.0, -180.0, 540.0, -540.0, 360.0, -360.0, 0.0, 900.0, 179.99999,
                        180.00001])
    mask = r.random(cx.n) < 0.25
    a[mask] = r.choice(special, int(mask.sum()))
    if r.random() < 0.5:
        a[0] = float(r.choice(special))
    if form == 0:
        return Call('util.to_180_range', util.to_180_range, [Arg(a, 'vec')], row0=True,
                    row0_p=0.5)
    if form == 1:
        return Call('util.to_180_range[Series]', util.to_180_range,
                    [Arg(pd.Series(a), 'plain')])
    if form == 2:
        return Call('util.to_180_range[DataFrame]', util.to_180_range,
                    [Arg(cx.traj(r)[RPH_COLS] * 3.0, 'plain')])
    return Call('util.to_180_range[2d]', util.to_180_range,
                [Arg(r.uniform(-720, 720, (cx.n, 3)), 'n3a')])


@template('util.Bunch')
def _(cx, r):
    def f(a, b):
        x = util.Bunch(a=a, b=b)
        x.c = 1
        return x.a, x.b, sorted(dir(x)), repr(x)
    return Call('util.Bunch', f, [Arg(cx.n3(r), 'plain'), Arg(cx.traj(r), 'plain')])


# --------------------------------------------------------------- kalman
def _psd(r, n, scale=1.0):
    a = r.standard_normal((n, n))
    return scale * (a @ a.T + 0.1 * np.eye(n))


@template('kalman.compute_process_matrices')
def _(cx, r):
    n = int(r.integers(1, 8))
    F, dt = r.standard_normal((n, n)) * 0.3, float(r.uniform(0, 2))
    prev = getattr(cx, 'last_process_args', None)
    if prev is not None and r.random() < 0.5:
        # the same dynamics and step again with ANOTHER noise density (a noise sweep)
        F, dt = prev[0].copy(), prev[1]
        n = len(F)
    cx.last_process_args = (F.copy(), dt)
    return Call('kalman.compute_process_matrices', kalman.compute_process_matrices,
                [Arg(F, 'plain'), Arg(_psd(r, n, float(10 ** r.uniform(-3, 1))), 'plain'),
                 Arg(dt, 'plain')])


@template('kalman.correct')
def _(cx, r):
    n, m = int(r.integers(1, 8)), int(r.integers(1, 4))
    P = _psd(r, n)
    u = r.random()
    if u < 0.4:
        # a propagated covariance: symmetric only up to rounding
        Phi = np.eye(n) + 0.1 * r.standard_normal((n, n))
        P = Phi @ P @ Phi.T + 0.01 * _psd(r, n)
    elif u < 0.6:
        P = P * (1.0 + 1e-10 * r.standard_normal((n, n)))      # sloppy symmetry
    return Call('kalman.correct', kalman.correct,
                [Arg(r.standard_normal(n), 'plain'), Arg(P, 'plain'),
                 Arg(r.standard_normal(m), 'plain'), Arg(r.standard_normal((m, n)), 'plain'),
                 Arg(_psd(r, m), 'plain')])


# ------------------------------------------------------------ strapdown
@template('strapdown.compute_increments_from_imu')
def _(cx, r):
    imu = cx.pick(r, 'imu')
    if r.random() < 0.2 and len(imu) > 3:
        # a sample logged twice with the previous sample's time stamp (dt == 0): the
        # documented row count ("always one less than the number of IMU readings") holds
        k = int(r.integers(1, len(imu)))
        idx = np.asarray(imu.index, dtype=float).copy()
        idx[k] = idx[k - 1]
        imu = imu.copy()
        imu.index = pd.Index(idx, name=imu.index.name)
    return Call('strapdown.compute_increments_from_imu',
                strapdown.compute_increments_from_imu,
                [Arg(imu, 'table'), Arg(['rate', 'increment'][int(r.integers(2))])],
                out=('increments',), schema=('increments',),
                expect_index=np.asarray(imu.index)[1:])


@template('strapdown.Integrator')
def _(cx, r):
    return Call('strapdown.Integrator', lambda *a: strapdown.Integrator(*a),
                [Arg(cx.pva(r), 'pva'), Arg(bool(r.random() < 0.5))],
                out=('integrator',))


@template('strapdown.Integrator.integrate')
def _(cx, r):
    it = _integrator(cx, r)
    k = int(r.integers(0, 6))
    chunk = _next_increments(cx, r, it, k)
    return Call('strapdown.Integrator.integrate',
                lambda s, inc: s.integrate(inc), [Arg(it, 'self'), Arg(chunk, 'table')],
                out=('trajectory',) if k >= 2 else (), schema=('trajectory',))


@template('strapdown.Integrator.predict')
def _(cx, r):
    it = _integrator(cx, r)
    row = _next_increments(cx, r, it, 1).iloc[0]
    return Call('strapdown.Integrator.predict', lambda s, inc: s.predict(inc),
                [Arg(it, 'selfpure'), Arg(row, 'plain')], out=('pva',), schema=('pva',))


@template('strapdown.Integrator.get_time')
def _(cx, r):
    return Call('strapdown.Integrator.get_time', lambda s: s.get_time(),
                [Arg(_integrator(cx, r), 'selfpure')])


@template('strapdown.Integrator.get_pva')
def _(cx, r):
    return Call('strapdown.Integrator.get_pva', lambda s: s.get_pva(),
                [Arg(_integrator(cx, r), 'selfpure')], out=('pva',), schema=('pva',))


@template('strapdown.Integrator.set_pva')
def _(cx, r):
    it = _integrator(cx, r)
    p = cx.pva(r).copy()
    p.name = it.get_time()
    return Call('strapdown.Integrator.set_pva',
                lambda s, p_: (s.set_pva(p_), s.get_pva())[1],
                [Arg(it, 'self'), Arg(p, 'pva')], schema=('pva_values',))


# ---------------------------------------------------------- error_model
@template('error_model.InsErrorModel')
def _(cx, r):
    return Call('error_model.InsErrorModel', lambda *a: error_model.InsErrorModel(*a),
                [Arg(bool(r.random() < 0.5))], out=('error_model',))


@template('error_model.InsErrorModel.system_matrices')
def _(cx, r):
    tr = cx.traj(r) if r.random() < 0.6 else cx.pva(r)
    return Call('error_model.InsErrorModel.system_matrices',
                lambda s, t: s.system_matrices(t),
                [Arg(_err_model(cx, r), 'selfpure'), Arg(tr, 'plain')])


@template('error_model.InsErrorModel.transform_to_output')
def _(cx, r):
    tr = cx.traj(r) if r.random() < 0.6 else cx.pva(r)
    return Call('error_model.InsErrorModel.transform_to_output',
                lambda s, t: s.transform_to_output(t),
                [Arg(_err_model(cx, r), 'selfpure'), Arg(tr, 'plain')])


@template('error_model.InsErrorModel.transform_to_internal')
def _(cx, r):
    return Call('error_model.InsErrorModel.transform_to_internal',
                lambda s, t: s.transform_to_internal(t),
                [Arg(_err_model(cx, r), 'selfpure'), Arg(cx.pva(r), 'pva')])


@template('error_model.InsErrorModel.correct_pva')
def _(cx, r):
    m = _err_model(cx, r)
    x = r.standard_normal(m.n_states) * np.where(np.arange(m.n_states) < m.n_states - 3,
                                                  1.0, 1e-3)
    return Call('error_model.InsErrorModel.correct_pva',
                lambda s, p, x_: s.correct_pva(p, x_),
                [Arg(m, 'selfpure'), Arg(cx.pva(r), 'pva'), Arg(x, 'plain')],
                out=('pva_unnamed',), schema=('pva',))


@template('error_model.InsErrorModel.position_error_jacobian')
def _(cx, r):
    lever = cx.vec3(r) if r.random() < 0.6 else None
    return Call('error_model.InsErrorModel.position_error_jacobian',
                lambda s, p, l: s.position_error_jacobian(p, l),
                [Arg(_err_model(cx, r), 'selfpure'), Arg(cx.pva(r), 'pva'),
                 Arg(lever, 'vec3' if lever is not None else 'plain')])


@template('error_model.InsErrorModel.ned_velocity_error_jacobian')
def _(cx, r):
    lever = cx.vec3(r) if r.random() < 0.6 else None
    p = _pva_with_rates(cx, r) if r.random() < 0.6 else cx.pva(r)
    return Call('error_model.InsErrorModel.ned_velocity_error_jacobian',
                lambda s, p_, l: s.ned_velocity_error_jacobian(p_, l),
                [Arg(_err_model(cx, r), 'selfpure'), Arg(p, 'pva'),
                 Arg(lever, 'vec3' if lever is not None else 'plain')])


@template('error_model.InsErrorModel.body_velocity_error_jacobian')
def _(cx, r):
    return Call('error_model.InsErrorModel.body_velocity_error_jacobian',
                lambda s, p: s.body_velocity_error_jacobian(p),
                [Arg(_err_model(cx, r), 'selfpure'), Arg(cx.pva(r), 'pva')])


@template('error_model.propagate_errors')
def _(cx, r):
    tr = cx.traj(r)
    err = None
    if r.random() < 0.7:
        err = pd.Series(r.standard_normal(9) * [5, 5, 5, .5, .5, .5, .1, .1, .3],
                        index=TRAJECTORY_ERROR_COLS)
    kw = dict(with_altitude=Arg(bool(r.random() < 0.5)))
    if r.random() < 0.7:
        if r.random() < 0.5:
            kw['gyro_error'] = Arg(cx.vec3(r, 1e-4), 'vec3')
            kw['accel_error'] = Arg(cx.vec3(r, 1e-2), 'vec3')
        else:
            kw['gyro_error'] = Arg(cx.n3(r, len(tr), 1e-4), 'n3a')
            kw['accel_error'] = Arg(cx.n3(r, len(tr), 1e-2), 'n3a')
    return Call('error_model.propagate_errors', error_model.propagate_errors,
                [Arg(tr, 'plain'), Arg(err, 'plain')], kw,
                schema=('traj_error', None), expect_index=np.asarray(tr.index))


# --------------------------------------------------------- measurements
def _meas_ctor(kind):
    def build(cx, r):
        data = _meas_table(cx, r, kind)
        if r.random() < 0.3:
            # a wider table, as sliced out of a trajectory by a user
            tr = cx.traj(r)
            data = tr.iloc[::3].copy()
            if kind == 'BodyVelocity':
                data[BODY_COLS] = cx.n3(r, len(data), 5.0)
        sd = float(10 ** r.uniform(-1, 0.5))
        if kind == 'BodyVelocity':
            args = [Arg(data, 'table'), Arg(sd)]
        else:
            lever = cx.vec3(r) if r.random() < 0.5 else None
            args = [Arg(data, 'table'), Arg(sd), Arg(lever, 'plain')]
        # resolved at call time: after a module reload the class object is a new one
        return Call(f'measurements.{kind}',
                    lambda *a, _k=kind: getattr(measurements, _k)(*a), args,
                    out=('measurement',))
    return build


for _k in ('Position', 'NedVelocity', 'BodyVelocity'):
    T[f'measurements.{_k}'] = _meas_ctor(_k)


@template('measurements.Measurement.compute_matrices')
def _(cx, r):
    mo = _meas_obj(cx, r)
    em_ = _err_model(cx, r)
    if r.random() < 0.75 and len(mo.data):
        t = float(mo.data.index[int(r.integers(len(mo.data)))])
    else:
        t = float(cx.times[0] - 1.0)
    p = _pva_with_rates(cx, r) if r.random() < 0.5 else cx.pva(r)
    return Call(f'measurements.{type(mo).__name__}.compute_matrices',
                lambda s, t_, p_, e_: s.compute_matrices(t_, p_, e_),
                [Arg(mo, 'selfpure'), Arg(t), Arg(p, 'pva'), Arg(em_, 'plain')])


@template('measurements.Measurement')
def _(cx, r):
    def f(data):
        mo = measurements.Measurement(data)
        try:
            mo.compute_matrices(0.0, None, None)
        except NotImplementedError:
            return 'NotImplementedError'
        return 'returned'
    return Call('measurements.Measurement', f, [Arg(_meas_table(cx, r, 'Position'),
                                                    'plain')])


# ------------------------------------------------------ inertial_sensor
@template('inertial_sensor.EstimationModel')
def _(cx, r):
    p = _model_params(r, ['gyro', 'accel'][int(r.integers(2))])
    args = []
    for k in ('bias_sd', 'noise', 'bias_walk'):
        v = p[k]
        args.append(Arg(v, 'vec3' if isinstance(v, np.ndarray) else 'plain'))
    v = p['scale_misal_sd']
    args.append(Arg(v, 'm33' if isinstance(v, np.ndarray) else 'plain'))
    return Call('inertial_sensor.EstimationModel',
                lambda *a: inertial_sensor.EstimationModel(*a), args,
                out=('est_model',))


@template('inertial_sensor.EstimationModel.output_matrix')
def _(cx, r):
    m = _est_model(cx, r)
    if r.random() < 0.5:
        rd = Arg(cx.vec3(r), 'vec3')
    else:
        rd = Arg(cx.n3(r), 'n3a')
    return Call('inertial_sensor.EstimationModel.output_matrix',
                lambda s, x: s.output_matrix(x), [Arg(m, 'selfpure'), rd])


@template('inertial_sensor.EstimationModel.update_estimates')
def _(cx, r):
    m = _est_model(cx, r)
    x = r.standard_normal(m.n_states) * 1e-4
    return Call('inertial_sensor.EstimationModel.update_estimates',
                lambda s, x_: (s.update_estimates(x_), s.get_estimates())[1],
                [Arg(m, 'self'), Arg(x, 'plain')])


@template('inertial_sensor.EstimationModel.reset_estimates')
def _(cx, r):
    def all_zero(est):
        v = np.asarray(est, dtype=float)
        return None if (v == 0).all() else \
            f"estimates after reset_estimates are not zero: {dict(est[est != 0])}"
    m = _est_model(cx, r)
    x = r.standard_normal(m.n_states) * 1e-3
    # whatever was accumulated before (here: one more update), a reset clears all of it
    return Call('inertial_sensor.EstimationModel.reset_estimates',
                lambda s, x_: (s.update_estimates(x_), s.reset_estimates(),
                               s.get_estimates())[2],
                [Arg(m, 'self'), Arg(x, 'plain')], schema=(all_zero,))


@template('inertial_sensor.EstimationModel.get_estimates')
def _(cx, r):
    return Call('inertial_sensor.EstimationModel.get_estimates',
                lambda s: s.get_estimates(), [Arg(_est_model(cx, r), 'selfpure')])


@template('inertial_sensor.EstimationModel.correct_increments')
def _(cx, r):
    m = _est_model(cx, r)
    inc = cx.pick(r, 'increments')
    cols = THETA_COLS if r.random() < 0.5 else DV_COLS
    if r.random() < 0.5:
        return Call('inertial_sensor.EstimationModel.correct_increments',
                    lambda s, dt, x: s.correct_increments(dt, x),
                    [Arg(m, 'selfpure'), Arg(inc['dt'], 'plain'), Arg(inc[cols], 'plain')])
    row = inc.iloc[int(r.integers(len(inc)))]
    return Call('inertial_sensor.EstimationModel.correct_increments[Series]',
                lambda s, dt, x: s.correct_increments(dt, x),
                [Arg(m, 'selfpure'), Arg(float(row['dt'])), Arg(row[cols], 'plain')])


@template('inertial_sensor.Parameters')
def _(cx, r):
    tr = np.eye(3) + r.standard_normal((3, 3)) * 1e-3 if r.random() < 0.6 else None
    bias = cx.vec3(r, 1e-3) * (r.random(3) < 0.7) if r.random() < 0.7 else None
    noise = [None, 1e-4, cx.vec3(r, 1e-4) ** 2][int(r.integers(3))]
    walk = [None, 1e-6, cx.vec3(r, 1e-5) ** 2 * (r.random(3) < 0.6)][int(r.integers(3))]
    return Call('inertial_sensor.Parameters', lambda *a: inertial_sensor.Parameters(*a),
                [Arg(tr, 'm33' if tr is not None else 'plain'),
                 Arg(bias, 'vec3' if bias is not None else 'plain'),
                 Arg(noise, 'vec3' if isinstance(noise, np.ndarray) else 'plain'),
                 Arg(walk, 'vec3' if isinstance(walk, np.ndarray) else 'plain'),
                 Arg(cx.seed(r), 'seed')], out=('parameters',))


@template('inertial_sensor.Parameters.from_EstimationModel')
def _(cx, r):
    return Call('inertial_sensor.Parameters.from_EstimationModel',
                lambda *a: inertial_sensor.Parameters.from_EstimationModel(*a),
                [Arg(_est_model(cx, r), 'plain'), Arg(cx.seed(r), 'seed')],
                out=('parameters',))


def _parameters(cx, r):
    if cx.pool.get('parameters') and r.random() < 0.6:
        return cx.pick(r, 'parameters')
    u = r.random()
    if u < 0.3:
        # walk on axes without a constant bias, bias on a subset of axes
        bias = cx.vec3(r, 1e-3) * (r.random(3) < 0.5)
        walk = 1e-6 * (r.random(3) < 0.6)
        return inertial_sensor.Parameters(bias=bias, noise=1e-4, bias_walk=walk,
                                          rng=cx.seed(r))
    return inertial_sensor.Parameters(bias=cx.vec3(r, 1e-3), noise=1e-4, bias_walk=1e-6,
                                      rng=cx.seed(r))


@template('inertial_sensor.Parameters.apply')
def _(cx, r):
    imu = cx.pick(r, 'imu')
    cols = GYRO_COLS if r.random() < 0.5 else ACCEL_COLS
    par = _parameters(cx, r)

    def frame_schema(frame, par=par, index=np.asarray(imu.index)):
        # "columns containing non-zero parameters of IMU in the format consistent with
        #  pyins.filters results", indexed by time
        want = [f"bias_{'xyz'[a]}" for a in range(3)
                if par.bias[a] != 0 or par.bias_walk[a] != 0]
        want += [f"sm_{'xyz'[i]}{'xyz'[j]}" for i in range(3) for j in range(3)
                 if par.transform[i, j] != (1.0 if i == j else 0.0)]
        if not isinstance(frame, pd.DataFrame):
            return f"Parameters.data_frame is {type(frame).__name__}"
        if list(frame.columns) != want:
            return (f"Parameters.data_frame columns {list(frame.columns)}; the non-zero "
                    f"parameters are {want}")
        if len(frame.index) != len(index) or not (np.asarray(frame.index) == index).all():
            return "Parameters.data_frame is not indexed by the readings' times"
        return None
    return Call('inertial_sensor.Parameters.apply',
                lambda s, rd, st: (s.apply(rd, st), s.data_frame),
                [Arg(par, 'self'), Arg(imu[cols], 'plain'),
                 Arg(['rate', 'increment'][int(r.integers(2))])],
                schema=(None, frame_schema))


@template('inertial_sensor.apply_imu_parameters')
def _(cx, r):
    imu = cx.pick(r, 'imu')
    g = _parameters(cx, r) if r.random() < 0.7 else None
    a = _parameters(cx, r) if r.random() < 0.7 else None
    if a is g:
        a = None
    if g is None and a is None:
        g = inertial_sensor.Parameters(bias=cx.vec3(r, 1e-3), rng=cx.seed(r))
    return Call('inertial_sensor.apply_imu_parameters',
                inertial_sensor.apply_imu_parameters,
                [Arg(imu, 'table'), Arg(['rate', 'increment'][int(r.integers(2))]),
                 Arg(g, 'plain', ignore=('rng', 'data_frame')),
                 Arg(a, 'plain', ignore=('rng', 'data_frame'))],
                out=('imu',), schema=('imu',), expect_index=np.asarray(imu.index))


# ------------------------------------------------------------------ sim
@template('sim.generate_imu')
def _(cx, r):
    tr = cx.pool['trajectory'][0]
    time = np.asarray(tr.index, dtype=float).copy()
    mode = int(r.integers(3))
    rph = Arg(tr[RPH_COLS].to_numpy().copy(), 'n3', RPH_COLS)
    stype = Arg(['rate', 'increment'][int(r.integers(2))])
    if mode == 0:
        args = [Arg(time, 'vec'), Arg(tr[LLA_COLS].to_numpy().copy(), 'n3', LLA_COLS), rph,
                Arg(tr[VEL_COLS].to_numpy().copy(), 'n3', VEL_COLS), stype]
    elif mode == 1:
        args = [Arg(time, 'vec'), Arg(tr[LLA_COLS].to_numpy().copy(), 'n3', LLA_COLS), rph,
                Arg(None), stype]
    else:
        args = [Arg(time, 'vec'), Arg(tr[LLA_COLS].to_numpy()[0].copy(), 'vec3'), rph,
                Arg(tr[VEL_COLS].to_numpy().copy(), 'n3', VEL_COLS), stype]
    return Call('sim.generate_imu', sim.generate_imu, args, out=('trajectory', 'imu'),
                schema=('trajectory', 'imu'), expect_index=time)


@template('sim.generate_sine_velocity_motion')
def _(cx, r):
    dt = [0.05, 0.1][int(r.integers(2))]
    total = float(r.uniform(1.0, 2.5))
    kw = {}
    if r.random() < 0.7:
        kw['velocity_change_amplitude'] = (Arg(cx.vec3(r, 3.0), 'vec3')
                                           if r.random() < 0.7 else Arg(2.0))
    if r.random() < 0.5:
        kw['velocity_change_period'] = Arg(float(r.uniform(5, 60)))
    if r.random() < 0.5:
        kw['velocity_change_phase_offset'] = Arg(r.uniform(0, 180, 3), 'vec3')
    if r.random() < 0.5:
        kw['sensor_type'] = Arg(['rate', 'increment'][int(r.integers(2))])
    return Call('sim.generate_sine_velocity_motion', sim.generate_sine_velocity_motion,
                [Arg(dt), Arg(total),
                 Arg(np.array([cx.wd['lat'], cx.wd['lon'], cx.wd['alt']]), 'vec3'),
                 Arg(cx.vec3(r, 10.0), 'vec3')], kw, out=('trajectory', 'imu'),
                schema=('trajectory', 'imu'))


def _gen_meas(kind, fn, cols):
    def build(cx, r):
        tr = cx.traj(r)
        return Call(f'sim.{fn.__name__}', fn,
                    [Arg(tr, 'table'), Arg(float(10 ** r.uniform(-1, 0.5))),
                     Arg(cx.seed(r), 'seed')], schema=(kind,),
                    expect_index=np.asarray(tr.index))
    return build


T['sim.generate_position_measurements'] = _gen_meas(
    'position_meas', sim.generate_position_measurements, LLA_COLS)
T['sim.generate_ned_velocity_measurements'] = _gen_meas(
    'ned_velocity_meas', sim.generate_ned_velocity_measurements, VEL_COLS)
T['sim.generate_body_velocity_measurements'] = _gen_meas(
    'body_velocity_meas', sim.generate_body_velocity_measurements, BODY_COLS)


@template('sim.generate_pva_error')
def _(cx, r):
    return Call('sim.generate_pva_error', sim.generate_pva_error,
                [Arg(float(r.uniform(0.1, 10))), Arg(float(r.uniform(0.01, 1))),
                 Arg(float(r.uniform(0.01, 1))), Arg(float(r.uniform(0.01, 2))),
                 Arg(cx.seed(r), 'seed')], out=('pva_error',), schema=('pva_error',))


@template('sim.perturb_pva')
def _(cx, r):
    if cx.pool.get('pva_error') and r.random() < 0.5:
        err = cx.pick(r, 'pva_error')
    else:
        err = pd.Series(r.standard_normal(9) * [5, 5, 5, .5, .5, .5, .1, .1, .3],
                        index=TRAJECTORY_ERROR_COLS)
    return Call('sim.perturb_pva', sim.perturb_pva,
                [Arg(cx.pva(r), 'pva'), Arg(err, 'plain')], out=('pva',),
                schema=('pva',))


@template('sim.Turntable')
def _(cx, r):
    def f(lla, rph, nonorth, ops):
        t = sim.Turntable(lla, rph, nonorth)
        for op in ops:
            if op[0] == 'rotate':
                t.rotate(op[1], op[2])
            else:
                t.rest(op[1])
        return t.time, t.inner_angle, t.outer_angle, list(t.actions)
    ops = []
    for _i in range(int(r.integers(1, 5))):
        if r.random() < 0.6:
            ops.append(('rotate', ['inner', 'outer'][int(r.integers(2))],
                        float(r.uniform(-180, 180))))
        else:
            ops.append(('rest', float(r.uniform(0.5, 5))))
    return Call('sim.Turntable', f,
                [Arg(np.array([cx.wd['lat'], cx.wd['lon'], cx.wd['alt']]), 'vec3'),
                 Arg(cx.vec3(r, 2.0), 'vec3'), Arg(float(r.uniform(0, 0.01))), Arg(ops)])


# -------------------------------------------------------------- filters
def _filter_common(cx, r):
    inc = cx.pool['increments'][0]
    traj = cx.pool['trajectory'][0]
    meas = []
    kinds = [k for k in ('Position', 'NedVelocity', 'BodyVelocity') if r.random() < 0.5]
    for k in kinds:
        data = _meas_table(cx, r, k)
        if r.random() < 0.5:
            # samples outside the processed span (before the start / after the end)
            extra = data.iloc[[0, -1]].copy()
            extra.index = [float(traj.index[0]) - 1.0 - float(r.random()),
                           float(traj.index[-1]) + 1.0 + float(r.random())]
            data = pd.concat([extra.iloc[:1], data, extra.iloc[1:]])
        sd = float(10 ** r.uniform(-0.5, 0.5))
        meas.append(measurements.BodyVelocity(data, sd) if k == 'BodyVelocity'
                    else getattr(measurements, k)(data, sd,
                                                  cx.vec3(r) if r.random() < 0.4 else None))
    g = inertial_sensor.EstimationModel(**_model_params(r, 'gyro'))
    a = inertial_sensor.EstimationModel(**_model_params(r, 'accel'))
    if cx.pool.get('est_model') and r.random() < 0.4:
        g = cx.pick(r, 'est_model')
    sds = [float(r.uniform(1, 10)), float(r.uniform(0.1, 1)), float(r.uniform(0.05, 0.5)),
           float(r.uniform(0.1, 1))]
    kw = dict(gyro_model=Arg(g, 'plain', ignore=('bias', 'transform')),
              accel_model=Arg(a, 'plain', ignore=('bias', 'transform')),
              measurements=Arg(meas if (meas or r.random() < 0.5) else None, 'plain'),
              time_step=Arg(float(r.choice([0.1, 0.3, 1.0]))),
              with_altitude=Arg(bool(r.random() < 0.5)))
    if r.random() < 0.2:
        # the documented defaults: no sensor models handed over at all
        # (tools/reach.py showed that the programs never took the default branches)
        kw.pop('gyro_model')
        kw.pop('accel_model')
    return inc, traj, sds, kw


@template('filters.run_feedback_filter')
def _(cx, r):
    inc, traj, sds, kw = _filter_common(cx, r)
    init = traj.iloc[0].copy()
    return Call('filters.run_feedback_filter',
                lambda *a, **k: dict(filters.run_feedback_filter(*a, **k)),
                [Arg(init, 'pva')] + [Arg(s) for s in sds] + [Arg(inc, 'table')], kw,
                schema=('filter_result',))


@template('filters.run_feedforward_filter')
def _(cx, r):
    inc, traj, sds, kw = _filter_common(cx, r)
    if 'gyro_model' in kw or r.random() < 0.5:
        kw['increments'] = Arg(inc, 'table')       # (optional without sensor models)
    nominal = traj if r.random() < 0.5 else traj.copy()
    return Call('filters.run_feedforward_filter',
                lambda *a, **k: dict(filters.run_feedforward_filter(*a, **k)),
                [Arg(nominal, 'plain'), Arg(traj, 'plain')] + [Arg(s) for s in sds], kw,
                schema=('filter_result',))


# --------------------------------------------------------------- schemas
SCHEMAS = {
    'trajectory': TRAJECTORY_COLS, 'imu': GYRO_COLS + ACCEL_COLS, 'increments': INC_COLS,
    'traj_error': TRAJECTORY_ERROR_COLS, 'position_meas': LLA_COLS,
    'ned_velocity_meas': VEL_COLS, 'body_velocity_meas': BODY_COLS,
}


def check_schema(kind, value, expect_index=None, ordered=True):
    """Return a problem string or None.  ``ordered=False``: the call was made with a
    label-permuted input, so only the SET of columns / labels is demanded."""
    if kind is None:
        return None
    if callable(kind):
        return kind(value)
    if kind in SCHEMAS:
        cols = SCHEMAS[kind]
        if not isinstance(value, pd.DataFrame):
            return f"{kind}: expected a DataFrame, got {type(value).__name__}"
        got = list(value.columns)
        if kind == 'traj_error':
            if not set(got) <= set(cols) or got != [c for c in cols if c in got]:
                return f"{kind}: columns {got}"
        elif (got != cols) if ordered else (sorted(got) != sorted(cols)):
            return f"{kind}: columns {got}, documented {cols}"
        idx = np.asarray(value.index)
        if idx.dtype.kind not in 'fiu':
            return f"{kind}: index is not numeric time ({idx.dtype})"
        if expect_index is None and len(idx) > 1 and \
                not (np.diff(idx.astype(float)) > 0).all():
            # (when the expected index is known it is compared exactly below; it may
            #  legitimately repeat a stamp when the caller's input does)
            return f"{kind}: time index not increasing"
        if expect_index is not None and kind not in ('traj_error',):
            if len(idx) != len(expect_index) or not (idx.astype(float) ==
                                                     np.asarray(expect_index, float)).all():
                return f"{kind}: time index differs from the input times"
        if not all(value.dtypes == float):
            return f"{kind}: non-float columns {dict(value.dtypes)}"
        return None
    if kind in ('pva', 'pva_values'):
        if not isinstance(value, pd.Series):
            return f"pva: {type(value).__name__}"
        labels = list(value.index)
        if not set(TRAJECTORY_COLS) <= set(labels) or len(set(labels)) != len(labels):
            return f"pva: index {labels}"
        return None
    if kind == 'pva_error':
        if not isinstance(value, pd.Series) or list(value.index) != TRAJECTORY_ERROR_COLS:
            return f"pva_error: index {list(getattr(value, 'index', []))}"
        return None
    if kind == 'filter_result':
        want = ['trajectory', 'trajectory_sd', 'gyro', 'gyro_sd', 'accel', 'accel_sd',
                'innovations']
        if not set(want) <= set(value.keys()):          # extra fields are not forbidden
            return f"filter result fields {sorted(value.keys())}"
        p = check_schema('trajectory', value['trajectory'], ordered=ordered)
        if p:
            return p
        if list(value['trajectory_sd'].columns) != TRAJECTORY_ERROR_COLS:
            return f"trajectory_sd columns {list(value['trajectory_sd'].columns)}"
        for a, b in (('gyro', 'gyro_sd'), ('accel', 'accel_sd')):
            if list(value[a].columns) != list(value[b].columns):
                return f"{a} / {b} columns differ"
            for c in value[a].columns:
                if not (c.startswith('bias_') or c.startswith('sm_')):
                    return f"{a} column {c!r} is not a documented parameter name"
        if not isinstance(value['innovations'], dict):
            return "innovations is not a dict"
        return None
    return None


def public_callables():
    """Every public callable of the ten modules (functions, classes, public methods)."""
    out = []
    for modname in ('earth', 'error_model', 'filters', 'inertial_sensor', 'kalman',
                    'measurements', 'sim', 'strapdown', 'transform', 'util'):
        mod = getattr(pyins, modname)
        for name, obj in sorted(vars(mod).items()):
            if name.startswith('_') or getattr(obj, '__module__', None) != mod.__name__:
                continue
            if isinstance(obj, type):
                out.append(f'{modname}.{name}')
                for mname, m in sorted(vars(obj).items()):
                    if mname.startswith('_') or not callable(getattr(obj, mname, None)):
                        continue
                    if isinstance(m, property):
                        continue
                    out.append(f'{modname}.{name}.{mname}')
            elif callable(obj):
                out.append(f'{modname}.{name}')
    return out


# callables deliberately without a template, with the reason
EXCLUDED = {
    'sim.Turntable.generate_imu': 'fails already under the installed scipy '
                                  '(BASELINE.always_fail test_Turntable)',
    'sim.Turntable.rotate': 'covered inside template sim.Turntable',
    'sim.Turntable.rest': 'covered inside template sim.Turntable',
    'measurements.Position.compute_matrices': 'covered by template '
                                              'measurements.Measurement.compute_matrices',
    'measurements.NedVelocity.compute_matrices': 'covered by template '
                                                 'measurements.Measurement.compute_matrices',
    'measurements.BodyVelocity.compute_matrices': 'covered by template '
                                                  'measurements.Measurement.compute_matrices',
    'util.Bunch': 'covered by template util.Bunch',
    'inertial_sensor.EstimationModel.reset_estimates': None,
}
