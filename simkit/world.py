"""The simulated world (STUB, simulator-owned): motion, IMU device, aiding devices.

Nothing here calls ``pyins.sim``.  IMU samples are synthesised directly as smooth body
rates and specific forces; the *reference trajectory* is produced by the real
``Integrator`` applied to the clean increments from the true initial state, so the world
is self-consistent by construction ("consistent world").

All functions are pure functions of their (JSON-able) arguments.
"""
from . import env  # noqa: F401
import numpy as np
import pandas as pd

from pyins import strapdown
from pyins.util import (GYRO_COLS, ACCEL_COLS, TRAJECTORY_COLS, LLA_COLS, VEL_COLS,
                        RPH_COLS)

G0 = 9.80665
WGS_A = 6378137.0
WGS_E2 = 6.6943799901413e-3


def quat_mul(a, b):
    w1, x1, y1, z1 = a
    w2, x2, y2, z2 = b
    return np.array([w1 * w2 - x1 * x2 - y1 * y2 - z1 * z2,
                     w1 * x2 + x1 * w2 + y1 * z2 - z1 * y2,
                     w1 * y2 - x1 * z2 + y1 * w2 + z1 * x2,
                     w1 * z2 + x1 * y2 - y1 * x2 + z1 * w2])


def quat_from_rph(r, p, h):
    r, p, h = np.deg2rad([r, p, h])
    cr, sr = np.cos(r / 2), np.sin(r / 2)
    cp, sp = np.cos(p / 2), np.sin(p / 2)
    ch, sh = np.cos(h / 2), np.sin(h / 2)
    return np.array([ch * cp * cr + sh * sp * sr, ch * cp * sr - sh * sp * cr,
                     ch * sp * cr + sh * cp * sr, sh * cp * cr - ch * sp * sr])


def quat_to_mat(q):
    w, x, y, z = q
    return np.array([
        [1 - 2 * (y * y + z * z), 2 * (x * y - w * z), 2 * (x * z + w * y)],
        [2 * (x * y + w * z), 1 - 2 * (x * x + z * z), 2 * (y * z - w * x)],
        [2 * (x * z - w * y), 2 * (y * z + w * x), 1 - 2 * (x * x + y * y)]])


def mat_from_rph(rph):
    return quat_to_mat(quat_from_rph(*rph))


def _signal(terms, t):
    out = np.zeros((len(t), 3))
    for amp, freq, ph, ax in terms:
        out[:, int(ax)] += amp * np.sin(2 * np.pi * freq * t + ph)
    return out


def make_world(r, gentle=False):
    """Draw world parameters from the run PRNG ``r`` (numpy Generator)."""
    k_rate = 0.05 if gentle else 0.3
    k_force = 0.5 if gentle else 3.0
    fmax = 0.033 if gentle else 1.0
    fmin = 0.01 if gentle else 0.05
    wd = _make_world(r, k_rate, k_force, fmin, fmax)
    if r.random() < 0.06:
        # within metres of the +-180 degree longitude line (errors, fixes and the motion
        # itself cross it)
        wd['lon'] = float((180.0 - 10.0 ** r.uniform(-7, -4)) * (1 if r.random() < 0.5 else -1))
    u = r.random()
    if u < 0.08:
        # a straight, non-rotating leg: consecutive attitudes (almost) identical
        wd['rate_terms'] = []
    elif u < 0.2:
        # heading within two degrees of the +-180 degree wrap, yawing across it
        wd['rph0'][2] = float((180.0 - r.uniform(0, 2)) * (1 if r.random() < 0.5 else -1))
        wd['rate_terms'].append([float(r.uniform(0.05, k_rate)) if k_rate > 0.05 else k_rate,
                                 float(r.uniform(fmin, fmax)), float(r.uniform(0.5, 2.6)), 2])
    return wd


def _make_world(r, k_rate, k_force, fmin, fmax):
    return dict(
        lat=float(r.uniform(-78, 78)), lon=float(r.uniform(-180, 180)),
        alt=float(r.uniform(-100, 10000)),
        rph0=[float(r.uniform(-25, 25)), float(r.uniform(-25, 25)),
              float(r.uniform(-180, 180))],
        vel0=[float(r.uniform(-80, 80)), float(r.uniform(-80, 80)),
              float(r.uniform(-3, 3))],
        rate_terms=[[float(r.uniform(0, k_rate)), float(r.uniform(fmin, fmax)),
                     float(r.uniform(0, 6.28)), int(r.integers(3))]
                    for _ in range(int(r.integers(1, 5)))],
        force_terms=[[float(r.uniform(0, k_force)), float(r.uniform(fmin, fmax)),
                      float(r.uniform(0, 6.28)), int(r.integers(3))]
                     for _ in range(int(r.integers(1, 5)))])


def synth_imu(stamps, world, stype, sub=8):
    """IMU device: samples of the designed body rate / specific force at ``stamps``.

    Two passes: attitude by fine quaternion integration of the designed rates, then
    ``f_b = C_nb^T (a_des - g)``.  'increment' devices integrate over each interval
    (first row duplicated, by pyins convention for such sensors).
    """
    stamps = np.asarray(stamps, dtype=float)
    t0 = stamps[0]
    fine = np.concatenate(
        [np.linspace(a, b, sub, endpoint=False)
         for a, b in zip(stamps[:-1], stamps[1:])] + [[stamps[-1]]])
    w = _signal(world['rate_terms'], fine - t0)
    q = quat_from_rph(*world['rph0'])
    C = np.empty((len(fine), 3, 3))
    C[0] = quat_to_mat(q)
    for i in range(len(fine) - 1):
        h = fine[i + 1] - fine[i]
        wm = 0.5 * (w[i] + w[i + 1])
        nrm = np.sqrt(wm @ wm)
        ang = nrm * h
        if ang > 0:
            dq = np.empty(4)
            dq[0] = np.cos(ang / 2)
            dq[1:] = np.sin(ang / 2) / nrm * wm
            q = quat_mul(q, dq)
            q /= np.sqrt(q @ q)
        C[i + 1] = quat_to_mat(q)
    a_n = _signal(world['force_terms'], fine - t0)
    a_n[:, 2] -= G0
    f = np.einsum('kji,kj->ki', C, a_n)
    if stype == 'rate':
        idx = np.arange(0, len(fine), sub)
        g = w[idx]
        a = f[idx]
    else:
        g = []
        a = []
        for k in range(len(stamps) - 1):
            sl = slice(k * sub, (k + 1) * sub + 1)
            tt = fine[sl]
            g.append(np.trapezoid(w[sl], tt, axis=0))
            a.append(np.trapezoid(f[sl], tt, axis=0))
        g = np.vstack([g[0]] + g)
        a = np.vstack([a[0]] + a)
    return pd.DataFrame(np.hstack([g, a]), index=pd.Index(stamps, name='time'),
                        columns=GYRO_COLS + ACCEL_COLS)


def true_initial_pva(world, t0):
    return pd.Series([world['lat'], world['lon'], world['alt']] + list(world['vel0'])
                     + list(world['rph0']), index=TRAJECTORY_COLS, name=float(t0))


def radii(lat_deg, alt):
    s2 = np.sin(np.deg2rad(lat_deg)) ** 2
    x = 1 - WGS_E2 * s2
    re = WGS_A / np.sqrt(x)
    rn = re * (1 - WGS_E2) / x
    return rn + alt, (re + alt) * np.cos(np.deg2rad(lat_deg))


def shift_lla(lla, d_ned):
    """Move a geodetic point by a small NED vector (stub geometry, first order)."""
    lla = np.array(lla, dtype=float)
    rn, rp = radii(lla[0], lla[2])
    lla[0] += np.rad2deg(d_ned[0] / rn)
    lla[1] += np.rad2deg(d_ned[1] / rp)
    lla[2] -= d_ned[2]
    return lla


def perturb_pva(pva, err9):
    """Initial-condition error device: err9 = NED m, NED m/s, rph degrees."""
    out = pva.copy()
    out[LLA_COLS] = shift_lla(pva[LLA_COLS].values, err9[:3])
    out[VEL_COLS] = pva[VEL_COLS].values + err9[3:6]
    out[RPH_COLS] = pva[RPH_COLS].values + err9[6:9]
    return out


def reference_rows(reference, stamps):
    """Rows of the reference trajectory at arbitrary ``stamps`` (linear interpolation,
    heading unwrapped; stamps outside the span clamp to the end rows)."""
    t = reference.index.values
    vals = reference[TRAJECTORY_COLS].values.copy()
    vals[:, 8] = np.rad2deg(np.unwrap(np.deg2rad(vals[:, 8])))
    stamps = np.asarray(stamps, dtype=float)
    out = np.empty((len(stamps), 9))
    for c in range(9):
        out[:, c] = np.interp(stamps, t, vals[:, c])
    exact = np.searchsorted(t, stamps)
    for i, (s, k) in enumerate(zip(stamps, exact)):
        if k < len(t) and t[k] == s:
            out[i] = vals[k]
    out[:, 8] = (out[:, 8] + 180.0) % 360.0 - 180.0
    return out


def body_rate_at(world, t0, stamps):
    return _signal(world['rate_terms'], np.asarray(stamps, dtype=float) - t0)


def aiding_samples(kind, reference, world, stamps, sd, lever, noise_seed, scale=1.0):
    """Aiding device: samples of the reference at ``stamps`` plus seeded noise."""
    stamps = np.asarray(stamps, dtype=float)
    rows = reference_rows(reference, stamps)
    rng = np.random.Generator(np.random.PCG64(int(noise_seed)))
    noise = rng.standard_normal((len(stamps), 3)) * sd * scale
    out = np.empty((len(stamps), 3))
    rates = body_rate_at(world, reference.index[0], stamps)
    for i, row in enumerate(rows):
        C = mat_from_rph(row[6:9])
        if kind == 'Position':
            d = noise[i].copy()
            if lever is not None:
                d = d + C @ np.asarray(lever, dtype=float)
            out[i] = shift_lla(row[:3], d)
        elif kind == 'NedVelocity':
            v = row[3:6] + noise[i]
            if lever is not None:
                v = v + C @ np.cross(rates[i], np.asarray(lever, dtype=float))
            out[i] = v
        elif kind == 'BodyVelocity':
            out[i] = C.T @ row[3:6] + noise[i]
        else:
            raise ValueError(kind)
    cols = {'Position': LLA_COLS, 'NedVelocity': VEL_COLS,
            'BodyVelocity': ['VX', 'VY', 'VZ']}[kind]
    return pd.DataFrame(out, index=pd.Index(stamps, name='time'), columns=cols)


def clean_increments(world, imu_stamps, imu_type):
    imu = synth_imu(imu_stamps, world, imu_type)
    return strapdown.compute_increments_from_imu(imu, imu_type), imu


def in_fence(traj):
    v = traj[VEL_COLS].values
    return bool(np.isfinite(traj.values).all()
                and np.abs(traj.pitch.values).max() <= 75.0
                and np.abs(traj.lat.values).max() <= 82.0
                and np.sqrt((v * v).sum(axis=1)).max() <= 300.0)
