"""Seeded batch runner shared by all checks.

A *property module* provides::

    PROP                     'C09'
    LEVEL                    'exploration'
    TIERS                    {'quick': dict(runs=..., budget_s=...), 'thorough': ...}
    generate(run_seed, tier, index) -> scenario (JSON-able dict)
    execute(scenario) -> dict(violations=[{'class','detail','key'}], digest=str,
                              sig=str, nontrivial=bool, probes={}, faults={}, sim_s=float,
                              ops=int, extra={})
    shrink(scenario, predicate) -> smaller scenario     (optional)
    describe() -> dict(rule=str, real=[..], stub=[..], assumptions=[..], probes_wanted=[..])

One integer decides everything: run i of a batch uses
``run_seed = sha256("{VERIF_SEED}/{PROP}/{tier}/{i}")[:8]`` and nothing else is random.

Outcome classes: PASS (exit 0), VIOLATION (exit 1 + line), KNOWN-FINDING (line, exit 0,
only for entries of /verif/KNOWN_FINDINGS.txt), HARNESS-ERROR (exit 2; never a pass and
never a violation).
"""
from . import env
import faulthandler
import hashlib
import json
import multiprocessing
import os
import subprocess
import sys
import time
import traceback
from concurrent.futures import ProcessPoolExecutor, as_completed

import numpy as np

VERIF = env.VERIF_DIR
KNOWN_FILE = os.path.join(VERIF, 'KNOWN_FINDINGS.txt')
RUN_WATCHDOG_S = 600


def run_seed(verif_seed, prop, tier, i):
    h = hashlib.sha256(f"{verif_seed}/{prop}/{tier}/{i}".encode()).digest()
    return int.from_bytes(h[:8], 'big') >> 1


def warm_up():
    """JIT-compile the kernel in the parent so that forked workers inherit it."""
    import pandas as pd
    from pyins import strapdown
    from pyins.util import TRAJECTORY_COLS
    pva = pd.Series([50.0, 30.0, 100.0, 1.0, 2.0, 0.1, 1.0, 2.0, 30.0],
                    index=TRAJECTORY_COLS, name=0.0)
    inc = pd.DataFrame(np.full((3, 7), 1e-3), index=[0.1, 0.2, 0.3],
                       columns=['dt', 'theta_x', 'theta_y', 'theta_z',
                                'dv_x', 'dv_y', 'dv_z'])
    strapdown.Integrator(pva, True).integrate(inc)
    strapdown.Integrator(pva, False).integrate(inc)


def jsonable(o):
    if isinstance(o, dict):
        return {str(k): jsonable(v) for k, v in o.items()}
    if isinstance(o, (list, tuple)):
        return [jsonable(v) for v in o]
    if isinstance(o, np.ndarray):
        return jsonable(o.tolist())
    if isinstance(o, (np.floating,)):
        return float(o)
    if isinstance(o, (np.integer,)):
        return int(o)
    if isinstance(o, (np.bool_,)):
        return bool(o)
    return o


def _one(mod, verif_seed, tier, i):
    rs = run_seed(verif_seed, mod.PROP, tier, i)
    t0 = time.perf_counter()
    sc = mod.generate(rs, tier, i)
    res = mod.execute(sc)
    res['index'] = i
    res['run_seed'] = rs
    res['wall'] = time.perf_counter() - t0
    if res['violations'] or i < 3:
        res['scenario'] = sc
    return res


def _chunk(args):
    mod_name, verif_seed, tier, idxs = args
    mod = sys.modules.get(mod_name) or __import__(mod_name, fromlist=['x'])
    out = []
    for i in idxs:
        faulthandler.dump_traceback_later(RUN_WATCHDOG_S, exit=True)
        try:
            out.append(_one(mod, verif_seed, tier, i))
        except Exception:
            out.append(dict(index=i, harness_error=traceback.format_exc()))
        finally:
            faulthandler.cancel_dump_traceback_later()
    return out


def load_known():
    known, fixed = [], []
    if os.path.exists(KNOWN_FILE):
        for line in open(KNOWN_FILE):
            line = line.strip()
            if not line or line.startswith('#'):
                continue
            if line.startswith('known:'):
                parts = line[len('known:'):].strip().split(None, 2)
                d = dict(p.split('=', 1) for p in parts[:2])
                d['what'] = parts[2] if len(parts) > 2 else ''
                known.append(d)
            elif line.startswith('fixed:'):
                fixed.append(line)
    return known, fixed


def write_replay(mod, sc, viol, verif_seed, tier, digest, tag=None):
    d = os.path.join(VERIF, 'replays')
    os.makedirs(d, exist_ok=True)
    name = tag or f"{mod.PROP}-{verif_seed}-{tier}-{sc.get('run_index', 'x')}"
    path = os.path.join(d, name + '.json')
    doc = dict(format=1, property=mod.PROP, verif_seed=verif_seed, tier=tier,
               violation=viol, event_log_sha256=digest, scenario=sc)
    with open(path, 'w') as f:
        json.dump(jsonable(doc), f, indent=1)
    return path


def replay(mod, path):
    doc = json.load(open(path))
    sc = doc['scenario']
    res = mod.execute(sc)
    want = doc.get('violation', {}).get('class')
    got = [v['class'] for v in res['violations']]
    print(f"replay {path}: expected class {want!r}; got {got}; digest "
          f"{'same' if res['digest'] == doc.get('event_log_sha256') else 'DIFFERENT'}")
    for v in res['violations']:
        print(f"  {v['class']}: {v['detail']}")
    if want in got or (want is None and got):
        print(f"VIOLATION property={mod.PROP} replay={path}")
        return 1
    return 0


def _selftest_subprocess(mod, verif_seed, tier, idxs, hashseed):
    envv = dict(os.environ)
    envv['PYTHONHASHSEED'] = str(hashseed)
    envv['VERIF_SEED'] = str(verif_seed)
    cmd = [sys.executable, os.path.join(VERIF, 'simkit_main.py'), mod.PROP, '--tier', tier,
           '--digests', ','.join(map(str, idxs))]
    p = subprocess.run(cmd, env=envv, capture_output=True, text=True, timeout=1200)
    if p.returncode != 0:
        raise RuntimeError(f"self-test subprocess failed: {p.stderr[-2000:]}")
    out = {}
    for line in p.stdout.splitlines():
        if line.startswith('DIGEST '):
            _, i, d = line.split()
            out[int(i)] = d
    return out


def print_digests(mod, verif_seed, tier, idxs):
    warm_up()
    for i in idxs:
        res = _one(mod, verif_seed, tier, i)
        print(f"DIGEST {i} {res['digest']}")
    return 0


def main(mod, argv):
    import argparse
    ap = argparse.ArgumentParser(prog=f'check {mod.PROP}')
    ap.add_argument('--tier', default=os.environ.get('VERIF_TIER', 'quick'),
                    choices=['quick', 'thorough'])
    ap.add_argument('--replay')
    ap.add_argument('--digests')
    ap.add_argument('--shrink', help='re-minimise a replay file in place')
    ap.add_argument('--runs', type=int)
    ap.add_argument('--workers', type=int,
                    default=int(os.environ.get('VERIF_WORKERS', '0')) or None)
    ap.add_argument('--dump-digests', help='write {run index: digest} of the batch as JSON')
    ap.add_argument('--hyp-digest', help='print the digest of Hypothesis process(es) i,j,..')
    ap.add_argument('--no-hyp', action='store_true')
    ap.add_argument('--no-selftest', action='store_true')
    ap.add_argument('--no-evidence', action='store_true')
    a = ap.parse_args(argv)
    verif_seed = int(os.environ.get('VERIF_SEED', '0') or 0)
    tier = a.tier
    if a.replay:
        warm_up()
        return replay(mod, a.replay)
    if a.shrink:
        warm_up()
        doc = json.load(open(a.shrink))
        small = mod.shrink(doc['scenario'], doc['violation']['class'])
        res = mod.execute(small)
        v = next(x for x in res['violations'] if x['class'] == doc['violation']['class'])
        doc.update(scenario=small, violation=v, event_log_sha256=res['digest'])
        json.dump(jsonable(doc), open(a.shrink, 'w'), indent=1)
        print(f"minimised {a.shrink}: {v['class']}: {v['detail']}")
        return 0
    if a.digests:
        return print_digests(mod, verif_seed, tier, [int(x) for x in a.digests.split(',')])
    if a.hyp_digest:
        from . import hyp
        warm_up()
        h = mod.HYP
        only = [int(x) for x in a.hyp_digest.split(',')]
        out = hyp.run_phase(mod.PROP, h['want'], h['force_2d'], verif_seed, tier,
                            h[tier][0], h[tier][1], 1, only=only)
        for i, r in zip(only, out):
            print(f"HYPDIGEST {i} {r.get('digest')}")
        return 0

    cfg = dict(mod.TIERS[tier])
    n_runs = a.runs or int(os.environ.get('VERIF_RUNS', '0') or 0) or cfg['runs']
    budget_s = float(os.environ.get('VERIF_BUDGET_S', '0') or 0) or cfg['budget_s']
    workers = a.workers or min(16, os.cpu_count() or 1)
    print(f"[{mod.PROP}] VERIF_SEED={verif_seed} tier={tier} runs<={n_runs} "
          f"budget={budget_s:.0f}s workers={workers} repo={env.REPO}", flush=True)
    t0 = time.time()
    warm_up()
    chunk = cfg.get('chunk', 4)
    idx_chunks = [list(range(s, min(s + chunk, n_runs))) for s in range(0, n_runs, chunk)]
    results = {}
    harness_errors = []
    ctx = multiprocessing.get_context('fork')
    stopped_early = False
    try:
        with ProcessPoolExecutor(max_workers=workers, mp_context=ctx) as ex:
            pending = {}
            it = iter(idx_chunks)

            def submit_more():
                nonlocal stopped_early
                while len(pending) < workers * 2:
                    if time.time() - t0 > budget_s:
                        stopped_early = True
                        return
                    try:
                        c = next(it)
                    except StopIteration:
                        return
                    fut = ex.submit(_chunk, (mod.__name__, verif_seed, tier, c))
                    pending[fut] = c
            submit_more()
            while pending:
                done = next(as_completed(list(pending)))
                pending.pop(done)
                for res in done.result():
                    if 'harness_error' in res:
                        harness_errors.append(res)
                    else:
                        results[res['index']] = res
                submit_more()
    except Exception as e:
        print(f"HARNESS-ERROR: worker pool failed: {e!r}")
        return 2
    if harness_errors:
        print(f"HARNESS-ERROR: {len(harness_errors)} run(s) raised inside the simulator; "
              f"first (run {harness_errors[0]['index']}):")
        print(harness_errors[0]['harness_error'])
        return 2
    if not results:
        print("HARNESS-ERROR: no run completed")
        return 2
    # a contiguous prefix only, so that coverage is a deterministic function of N
    order = sorted(results)
    wall_runs = time.time() - t0

    if a.dump_digests:
        with open(a.dump_digests, 'w') as f:
            json.dump({str(i): results[i]['digest'] for i in order}, f)

    # ---- determinism self-test
    selftest = dict(done=False)
    if not a.no_selftest:
        k = cfg.get('selftest', 4)
        sample = order[:: max(1, len(order) // k)][:k]
        try:
            again = {i: _one(mod, verif_seed, tier, i)['digest'] for i in sample}
            fresh = _selftest_subprocess(mod, verif_seed, tier, sample, 77)
        except Exception as e:
            print(f"HARNESS-ERROR: determinism self-test could not run: {e!r}")
            return 2
        bad = [i for i in sample
               if not (results[i]['digest'] == again[i] == fresh.get(i))]
        selftest = dict(done=True, runs=sample, same_process_repeat=True,
                        fresh_interpreter_pythonhashseed=77, workers=workers,
                        mismatches=bad)
        if bad:
            print(f"HARNESS-ERROR: determinism self-test failed for runs {bad}: "
                  f"{[(results[i]['digest'][:12], again[i][:12], str(fresh.get(i))[:12]) for i in bad]}")
            return 2

    # ---- aggregate
    sigs = {}
    probes = {}
    faults = {}
    sim_s = 0.0
    ops = 0
    extra_sum = {}
    extra_max = {}
    viol_runs = []
    for i in order:
        r = results[i]
        if r.get('nontrivial'):
            sigs[r['sig']] = sigs.get(r['sig'], 0) + 1
        for k2, v in r.get('probes', {}).items():
            probes[k2] = probes.get(k2, 0) + int(v)
        for k2, v in r.get('faults', {}).items():
            faults[k2] = faults.get(k2, 0) + int(v)
        sim_s += r.get('sim_s', 0.0)
        ops += r.get('ops', 0)
        for k2, v in r.get('extra', {}).items():
            if k2.startswith('max_'):
                extra_max[k2] = max(extra_max.get(k2, 0.0), float(v))
            else:
                extra_sum[k2] = extra_sum.get(k2, 0) + v
        if r['violations']:
            viol_runs.append(i)

    # ---- second generator: Hypothesis processes (call-history machines only)
    hyp_info = None
    hyp_viol = []
    if getattr(mod, 'HYP', None) and not a.no_hyp:
        from . import hyp
        h = mod.HYP
        n_procs, per_proc = h[tier]
        if a.runs or os.environ.get('VERIF_RUNS'):
            per_proc = max(10, min(per_proc, n_runs // max(1, n_procs)))
        t_h = time.time()
        try:
            hres = hyp.run_phase(mod.PROP, h['want'], h['force_2d'], verif_seed, tier,
                                 n_procs, per_proc, workers)
        except Exception as e:
            print(f"HARNESS-ERROR: Hypothesis phase failed: {e!r}")
            return 2
        bad = [r for r in hres if 'harness_error' in r]
        if bad:
            print(f"HARNESS-ERROR: Hypothesis process (seed {bad[0]['seed']}) raised inside "
                  f"the simulator:\n{bad[0]['harness_error']}")
            return 2
        hyp_info = dict(processes=n_procs, examples=sum(r['examples'] for r in hres),
                        valid_examples=sum(r['valid'] for r in hres),
                        operations=sum(r['ops'] for r in hres),
                        distinct_signatures_summed_over_processes=sum(
                            r['distinct'] for r in hres),
                        with_buffer_growth=sum(r['grow'] for r in hres),
                        with_restart=sum(r['set_pva'] for r in hres),
                        with_predict=sum(r['predicts'] for r in hres),
                        wall_s=round(time.time() - t_h, 1),
                        hypothesis_version=hyp.hypothesis.__version__)
        hyp_viol = [(p, r['violation']) for p, r in enumerate(hres) if r['violation']]
        if a.dump_digests:
            with open(a.dump_digests) as f:
                dd = json.load(f)
            dd.update({f'hyp{p}': r['digest'] for p, r in enumerate(hres)})
            with open(a.dump_digests, 'w') as f:
                json.dump(dd, f)
        if not a.no_selftest and not hyp_viol:
            try:
                envv = dict(os.environ, PYTHONHASHSEED='77', VERIF_SEED=str(verif_seed))
                pr = subprocess.run([sys.executable, os.path.join(VERIF, 'simkit_main.py'),
                                     mod.PROP, '--tier', tier, '--hyp-digest', '0']
                                    + (['--runs', str(n_runs)] if (a.runs or os.environ.get(
                                        'VERIF_RUNS')) else []),
                                    env=envv, capture_output=True, text=True, timeout=2400)
                fresh_d = [ln.split()[2] for ln in pr.stdout.splitlines()
                           if ln.startswith('HYPDIGEST 0 ')]
            except Exception as e:
                print(f"HARNESS-ERROR: Hypothesis determinism self-test could not run: {e!r}")
                return 2
            if fresh_d != [hres[0]['digest']]:
                print(f"HARNESS-ERROR: Hypothesis determinism self-test failed: process 0 "
                      f"digest {hres[0]['digest'][:16]} vs fresh interpreter {fresh_d} "
                      f"{pr.stderr[-500:]}")
                return 2
            hyp_info['determinism_selftest'] = dict(
                process=0, fresh_interpreter_pythonhashseed=77, same_digest=True)

    # ---- violations: shrink, write replay, consult known findings
    known, _fixed = load_known()
    reported = 0
    known_hits = {}
    seen_classes = set()
    exit_code = 0
    for i in viol_runs:
        r = results[i]
        v0 = r['violations'][0]
        match = next((kf for kf in known if kf.get('property') == mod.PROP
                      and kf.get('key') == v0['key']), None)
        if match is not None:
            known_hits.setdefault(v0['key'], match)
            continue
        exit_code = 1
        if v0['class'] in seen_classes and reported >= 3:
            continue
        new_class = v0['class'] not in seen_classes
        seen_classes.add(v0['class'])
        sc = r['scenario']
        sc['run_index'] = i
        small = sc
        if hasattr(mod, 'shrink') and (new_class or reported < 3) and reported < 8:
            try:
                small = mod.shrink(sc, v0['class'])
            except Exception:
                print("  (shrinker failed, reporting unshrunk scenario)\n" +
                      traceback.format_exc())
                small = sc
        res2 = mod.execute(small)
        v = next((x for x in res2['violations'] if x['class'] == v0['class']), v0)
        if not res2['violations']:
            small, res2, v = sc, r, v0
        path = write_replay(mod, small, v, verif_seed, tier, res2['digest'])
        print(f"  run {i} seed {r['run_seed']}: {v['class']}: {v['detail']}")
        print(f"VIOLATION property={mod.PROP} replay={path}")
        reported += 1
    for p_i, (sc_h, v_h) in hyp_viol:
        match = next((kf for kf in known if kf.get('property') == mod.PROP
                      and kf.get('key') == v_h['key']), None)
        if match is not None:
            known_hits.setdefault(v_h['key'], match)
            continue
        exit_code = 1
        if reported >= 6:
            continue
        res_h = mod.execute(sc_h)
        path = write_replay(mod, sc_h, v_h, verif_seed, tier, res_h['digest'],
                            tag=f"{mod.PROP}-{verif_seed}-{tier}-hyp{p_i}")
        print(f"  Hypothesis process {p_i} (minimal example, {len(sc_h['ops'])} operations): "
              f"{v_h['class']}: {v_h['detail']}")
        print(f"VIOLATION property={mod.PROP} replay={path}")
        reported += 1
    for key, kf in known_hits.items():
        print(f"KNOWN-FINDING: property={mod.PROP} {kf['what']} [key={key}]")

    wall = time.time() - t0
    desc = mod.describe()
    wanted = desc.get('probes_wanted', [])
    unreached = [p for p in wanted if probes.get(p, 0) == 0]
    samples = []
    for i in order[:3]:
        sc = results[i].get('scenario')
        if sc is not None:
            samples.append(mod.sample_view(sc) if hasattr(mod, 'sample_view') else sc)
    coverage = dict(
        evaluations=len(order),
        distinct_nontrivial=len(sigs),
        rule=desc['rule'],
        samples=jsonable(samples) or [dict(note='no sample retained')],
        runs_per_hour=round(len(order) / max(wall_runs, 1e-9) * 3600),
        seeds_per_hour=round(len(order) / max(wall_runs, 1e-9) * 3600),
        simulated_seconds=round(sim_s, 3),
        operations=ops,
        faults_fired=dict(sorted(faults.items())),
        probes_hit=dict(sorted(probes.items())),
        unreached_probes=unreached,
        determinism_selftest=selftest,
        components_real=desc['real'],
        components_stub=desc['stub'],
        stopped_early_on_budget=stopped_early,
        requested_runs=n_runs,
        violating_runs=len(viol_runs),
        known_finding_keys=sorted(known_hits),
        measures=dict(sorted({**extra_sum, **extra_max}.items())),
        second_generator_hypothesis=hyp_info or 'not used by this check',
        versions=env.versions(),
    )
    evidence = dict(property_id=mod.PROP, tier=tier, seed=verif_seed, level=mod.LEVEL,
                    coverage=coverage, assumptions=desc['assumptions'],
                    wall_s=round(wall, 2), violations=len(viol_runs) - sum(
                        1 for i in viol_runs
                        if results[i]['violations'][0]['key'] in known_hits) + sum(
                        1 for _p, (_s, v_h) in hyp_viol if v_h['key'] not in known_hits))
    if not a.no_evidence:
        os.makedirs(os.path.join(VERIF, 'evidence'), exist_ok=True)
        with open(os.path.join(VERIF, 'evidence', f'{mod.PROP}.json'), 'w') as f:
            json.dump(jsonable(evidence), f, indent=1, sort_keys=False)
    print(f"[{mod.PROP}] runs={len(order)} distinct_nontrivial={len(sigs)} "
          f"violating_runs={len(viol_runs)} sim_s={sim_s:.1f} wall={wall:.1f}s "
          f"({coverage['runs_per_hour']} runs/h) unreached_probes={unreached}")
    print(f"[{mod.PROP}] faults fired: {coverage['faults_fired']}")
    print(f"[{mod.PROP}] probes hit:   {coverage['probes_hit']}")
    if hyp_info:
        print(f"[{mod.PROP}] hypothesis:   {hyp_info}")
    if exit_code == 0:
        print(f"[{mod.PROP}] PASS")
    return exit_code
