"""C19 — public functions are pure, deterministic and keep the documented schema.

Seeded random *programs* over the public API with argument-snapshot, repeat-call,
isolated-replay, form-equivalence and schema monitors on every call.
"""
from . import env  # noqa: F401
import copy

import numpy as np
import pandas as pd

from . import api
from .fworld import rng_of
from .monitors import (digest, snapshot_digest, InitialSize, KernelShim, integrator_state,
                       obj_attrs, has_attrs)
from .shrink import ddmin_list

PROP = 'C19'
LEVEL = 'exploration'
TIERS = {'quick': dict(runs=2400, budget_s=170, chunk=10, selftest=4),
         'thorough': dict(runs=40000, budget_s=1500, chunk=12, selftest=8)}
REL = 1e-9


def V(cls, detail, key=None):
    return {'class': cls, 'detail': detail, 'key': key or cls}


# -------------------------------------------------------------------- generation
def generate(run_seed, tier, index):
    r = rng_of(run_seed)
    names = sorted(api.T)
    n_ops = int(r.integers(10, 31))
    cheap = [n for n in names if not n.startswith('filters.')]
    ops = []
    for _ in range(n_ops):
        pool = names if r.random() < 0.25 else cheap
        # at most three filter runs per program (cost)
        if sum(1 for o in ops if o[0].startswith('filters.')) >= 3:
            pool = cheap
        if ops and r.random() < 0.25:
            # the same callable again, with other arguments (interaction through hidden
            # state needs two calls of one function in one program)
            prev = [o[0] for o in ops if not o[0].startswith('filters.')]
            if prev:
                ops.append([prev[int(r.integers(len(prev)))], int(r.integers(2 ** 31))])
                continue
        ops.append([pool[int(r.integers(len(pool)))], int(r.integers(2 ** 31))])
    return dict(format=1, kind='program', world_seed=int(r.integers(2 ** 31)),
                initial_size=[4, 16, 10000][int(r.integers(3))], ops=ops,
                cold_replay=bool(r.random() < 0.35), run_seed=int(run_seed))


# --------------------------------------------------------------------- execution
_PYINS_MODULES = ['util', 'earth', 'transform', 'kalman', 'error_model', 'inertial_sensor',
                  'measurements', 'strapdown', 'sim', 'filters']


def reset_module_state():
    """Re-execute the pyins modules (all but the compiled kernel) in place.

    Module-level state - caches, mutated class attributes, accumulated defaults - is
    re-initialised, while function objects created earlier keep working because reload
    re-uses the module dictionaries they refer to.  This is the in-process stand-in for
    "a fresh interpreter" in the isolated-replay monitor.
    """
    import importlib
    import sys
    import time
    if _RELOAD['disabled']:
        return
    t0 = time.perf_counter()
    for n in _PYINS_MODULES:
        importlib.reload(sys.modules['pyins.' + n])
    dt = time.perf_counter() - t0
    _RELOAD['n'] += 1
    _RELOAD['worst'] = max(_RELOAD['worst'], dt)
    if dt > 5.0:
        # re-executing the modules has become expensive (e.g. compiled functions were added
        # to them): keep the check usable, stop resetting module state, and say so
        _RELOAD['disabled'] = True


_RELOAD = dict(disabled=False, n=0, worst=0.0)


def _unused():
    pass


def _state_digest(obj, ignore=()):
    """Snapshot of an argument, as {part: digest}.

    Arrays, tables, series, lists: one digest (values, labels, axis names).  Objects: one
    digest per PUBLIC attribute present at the time of the snapshot - what a caller can
    see and owns; private (underscore) attributes and attributes that appear later (lazy
    caches) are the object's own business and are judged through behaviour (repeat /
    isolated-replay / second-run monitors), not through this snapshot.
    """
    if type(obj).__name__ == 'Integrator' and hasattr(obj, 'trajectory'):
        return {'<state>': snapshot_digest(integrator_state(obj))}
    if has_attrs(obj):
        return {k: snapshot_digest(v) for k, v in obj_attrs(obj).items()
                if not k.startswith('_') and k not in ignore}
    return {'<value>': snapshot_digest(obj)}


def _state_changed(before, obj, ignore=()):
    after = _state_digest(obj, ignore)
    return any(after.get(k) != d for k, d in before.items())


def _flatten(res, out):
    # labelled results are compared by LABEL: they may follow the label order of an input
    if isinstance(res, pd.Series) and len(res.index) and \
            all(isinstance(x, str) for x in res.index) and res.index.is_unique:
        res = res[sorted(res.index)]
    if isinstance(res, pd.DataFrame) and len(res.columns) and \
            all(isinstance(x, str) for x in res.columns) and res.columns.is_unique:
        res = res[sorted(res.columns)]
    if isinstance(res, (pd.DataFrame, pd.Series)):
        out.append(np.asarray(res.to_numpy(), dtype=float)
                   if res.to_numpy().dtype.kind in 'fiub' else None)
    elif isinstance(res, np.ndarray):
        out.append(res.astype(float) if res.dtype.kind in 'fiub' else None)
    elif isinstance(res, (float, int, np.floating, np.integer)) and \
            not isinstance(res, bool):
        out.append(np.asarray(float(res)))
    elif isinstance(res, dict):
        for k in sorted(res, key=str):
            _flatten(res[k], out)
    elif isinstance(res, (list, tuple)):
        for x in res:
            _flatten(x, out)
    elif hasattr(res, 'as_quat'):
        out.append(np.asarray(res.as_quat()))
    elif type(res).__name__ == 'Integrator' and hasattr(res, 'trajectory'):
        _flatten(integrator_state(res), out)    # observable state only
    elif has_attrs(res):
        # public attributes only: private ones are implementation detail (and need not be
        # comparable between argument forms)
        _flatten({k: v for k, v in obj_attrs(res).items()
                  if k != 'rng' and not k.startswith('_')}, out)
    return out


def _close(a, b):
    fa, fb = _flatten(a, []), _flatten(b, [])
    if len(fa) != len(fb):
        return False, f"{len(fa)} vs {len(fb)} numeric outputs"
    for i, (x, y) in enumerate(zip(fa, fb)):
        if x is None or y is None:
            continue
        if x.shape != y.shape:
            return False, f"output {i}: shape {x.shape} vs {y.shape}"
        if x.size == 0:
            continue
        scale = max(float(np.nanmax(np.abs(y))), 1e-300)
        if not np.allclose(x, y, rtol=REL, atol=REL * scale, equal_nan=True):
            return False, (f"output {i}: max abs difference "
                           f"{float(np.nanmax(np.abs(x - y))):.3e} (scale {scale:.3e})")
    return True, ''


def _row0_result(res):
    """Row 0 of every stacked numeric output."""
    if isinstance(res, tuple):
        return tuple(_row0_result(x) for x in res)
    if isinstance(res, np.ndarray) and res.ndim >= 1:
        return res[0]
    if isinstance(res, pd.Series):
        return res.iloc[0]
    return res


def _materialise_args(call, values, kvalues, forms):
    args = []
    for i, (a, v) in enumerate(zip(call.args, values)):
        f = forms.get(i, 'ndarray')
        if f == 'row0':
            args.append(api.row0_of(v, a.kind))
        else:
            args.append(api.apply_form(v, a.kind, f, a.cols))
    kw = {}
    for k, a in call.kwargs.items():
        f = forms.get(k, 'ndarray')
        kw[k] = api.apply_form(kvalues[k], a.kind, f, a.cols)
    return args, kw


def _draw_forms(call, r):
    forms = {}
    if call.row0 and r.random() < call.row0_p:
        for i, a in enumerate(call.args):
            if a.kind in ('vec', 'n3', 'n3a', 's33'):
                forms[i] = 'row0'
        return forms
    items = list(enumerate(call.args)) + list(call.kwargs.items())
    for key, a in items:
        if a.kind in api.FORMS and a.value is not None and r.random() < 0.55:
            opts = api.FORMS[a.kind]
            if a.kind == 'table' and not isinstance(a.value, pd.DataFrame):
                continue
            if a.kind == 'pva' and not isinstance(a.value, pd.Series):
                continue
            if a.cols is None:
                opts = [o for o in opts if o not in ('dataframe',)]
            forms[key] = opts[int(r.integers(len(opts)))]
    return {k: f for k, f in forms.items() if f != 'ndarray'}


def _call_desc(call, forms):
    if not forms:
        return call.name
    return call.name + ' with forms ' + ', '.join(
        f"{'arg' + str(k) if isinstance(k, int) else k}={f}"
        for k, f in sorted(forms.items(), key=lambda kv: str(kv[0])))


def _exc(e):
    return f"{type(e).__name__}: {str(e).splitlines()[0][:140] if str(e) else ''}"


def execute(sc, only_first=True):
    viol = []
    stats = dict(calls=0, formed_calls=0, row0_calls=0, pool_reuse=0, filters=0,
                 templates=set(), forms=set())
    records = []
    digs = []
    reloads0 = _RELOAD['n']
    # the kernel bounds shim turns a write past the state buffers into an exception (class
    # call-failed) instead of heap corruption that would take the worker process down
    with InitialSize(sc.get('initial_size', 10000)), KernelShim() as shim:
        cx = api.Context(rng_of(sc['world_seed']))
        for k, (tname, oseed) in enumerate(sc['ops']):
            r = rng_of(oseed)
            try:
                call = api.T[tname](cx, r)
            except Exception as e:
                raise RuntimeError(f"template {tname} failed to build: {_exc(e)}") from e
            forms = _draw_forms(call, r)
            stats['calls'] += 1
            stats['templates'].add(tname)
            if tname.startswith('filters.'):
                stats['filters'] += 1
            for f in forms.values():
                stats['forms'].add(f)
            values = [a.value for a in call.args]
            kvalues = {k2: a.value for k2, a in call.kwargs.items()}
            pre = copy.deepcopy((values, kvalues))
            desc = _call_desc(call, forms)
            # ---- the call itself, on the live objects (aliases of the pool)
            args, kw = _materialise_args(call, values, kvalues, forms)
            watch = []
            for a, v in list(zip(call.args, args)) + [(call.kwargs[k2], kw[k2])
                                                     for k2 in call.kwargs]:
                if a.kind == 'self':
                    continue
                watch.append((a, v, _state_digest(v, a.ignore)))
            try:
                res = call.fn(*args, **kw)
            except Exception as e:
                if forms:
                    # does the canonical form work?
                    try:
                        c_args, c_kw = _materialise_args(call, *copy.deepcopy(pre), {})
                        call.fn(*c_args, **c_kw)
                        viol.append(V('form-rejected',
                                      f"call #{k} {desc} raised {_exc(e)} although the "
                                      f"same values as ndarrays are accepted",
                                      f"form-rejected/{call.name}"))
                    except Exception as e2:
                        viol.append(V('call-failed', f"call #{k} {call.name} raised "
                                                     f"{_exc(e2)}", f"call-failed/{call.name}"))
                else:
                    viol.append(V('call-failed', f"call #{k} {call.name} raised {_exc(e)}",
                                  f"call-failed/{call.name}"))
                if only_first:
                    break
                continue
            digs.append(digest(res))
            # ---- 1. argument snapshot
            for a, v, before in watch:
                if _state_changed(before, v, a.ignore):
                    which = type(v).__name__
                    viol.append(V('argument-modified',
                                  f"call #{k} {desc} modified one of its arguments "
                                  f"({which}{'' if a.kind != 'selfpure' else ' (self of a '
                                  'query method)'})", f"argument-modified/{call.name}"))
                    break
            # ---- 2. repeat: two calls on two deep copies of the pre-call inputs must be
            #         BIT-identical.  (Bit equality is only demanded between executions whose
            #         inputs have the same memory layout: numpy reductions sum in an order
            #         that depends on strides, so the live call - whose arguments may be views
            #         into library-owned tables - is compared with them to rounding only.)
            dres = None
            try:
                a2, k2_ = _materialise_args(call, *copy.deepcopy(pre), forms)
                res_a = call.fn(*a2, **k2_)
                dres = digest(res_a)
                a3_, k3_ = _materialise_args(call, *copy.deepcopy(pre), forms)
                res_b = call.fn(*a3_, **k3_)
                if digest(res_b) != dres:
                    viol.append(V('not-repeatable',
                                  f"call #{k} {desc}: a second call with equal inputs "
                                  f"(equal integer seeds) gives a different result",
                                  f"not-repeatable/{call.name}"))
                else:
                    ok, why = _close(res, res_a)
                    if not ok:
                        viol.append(V('not-repeatable',
                                      f"call #{k} {desc}: the call on copies of its inputs "
                                      f"differs from the call on the inputs themselves: "
                                      f"{why}", f"not-repeatable/{call.name}"))
                res = res if dres is None else res
            except Exception as e:
                viol.append(V('not-repeatable', f"call #{k} {desc}: repeating the call "
                                                f"raised {_exc(e)}",
                              f"not-repeatable/{call.name}"))
            if dres is None:
                dres = digest(res)
            # ---- 4. form equivalence
            if forms:
                stats['formed_calls'] += 1
                try:
                    c_args, c_kw = _materialise_args(call, *copy.deepcopy(pre), {})
                    resc = call.fn(*c_args, **c_kw)
                    if any(f == 'row0' for f in forms.values()):
                        stats['row0_calls'] += 1
                        resc = _row0_result(resc)
                    ok, why = _close(res, resc)
                    if not ok:
                        viol.append(V('form-dependence',
                                      f"call #{k} {desc} differs from the same values "
                                      f"passed as ndarrays: {why}",
                                      f"form-dependence/{call.name}"))
                except Exception as e:
                    viol.append(V('call-failed', f"call #{k} {call.name} (canonical "
                                                 f"forms) raised {_exc(e)}",
                                  f"call-failed/{call.name}"))
            # ---- 5. schema
            if call.schema:
                results = res if isinstance(res, tuple) else (res,)
                relabelled = any(f in ('labels_permuted', 'labels_reversed', 'cols_permuted',
                                       'cols_reversed') for f in forms.values())
                for kind, val in zip(call.schema, results):
                    problem = api.check_schema(kind, val, call.expect_index,
                                               ordered=not relabelled)
                    if problem:
                        viol.append(V('schema', f"call #{k} {desc}: {problem}",
                                      f"schema/{call.name}"))
                        break
            records.append((k, call, forms, pre, dres, desc))
            # ---- pool update (results alias what the function returned)
            relabelled_call = any(f in ('labels_permuted', 'labels_reversed', 'cols_permuted',
                                        'cols_reversed') for f in forms.values())
            if call.out and not relabelled_call:
                results = res if isinstance(res, tuple) else (res,)
                for kind, val in zip(call.out, results):
                    if kind == 'pva_unnamed':
                        continue
                    if kind in ('trajectory',) and (not isinstance(val, pd.DataFrame)
                                                    or len(val) < 4 or
                                                    not np.isfinite(val.to_numpy()).all()):
                        continue
                    if kind == 'pva' and not (isinstance(val, pd.Series) and
                                              np.isfinite(val.to_numpy()).all() and
                                              abs(val['pitch']) < 80):
                        continue
                    cx.add(kind, val)
                    stats['pool_reuse'] += 1
            if viol and only_first:
                break
        # ---- 3. isolated replay of every call from its pre-call copies
        if not viol:
            reset_module_state()
            shim.reinstall()
            for (k, call, forms, pre, dres, desc) in records:
                if sc.get('cold_replay'):
                    reset_module_state()
                    shim.reinstall()
                try:
                    a3, k3 = _materialise_args(call, *copy.deepcopy(pre), forms)
                    res3 = call.fn(*a3, **k3)
                    same = digest(res3) == dres
                except Exception as e:
                    same = False
                    desc += f" (raised {_exc(e)})"
                if not same:
                    viol.append(V('history-dependence',
                                  f"call #{k} {desc}: re-executed alone after the program "
                                  f"(module state re-initialised), from the inputs it had, "
                                  f"it gives a different result",
                                  f"history-dependence/{call.name}"))
                    break
    return dict(violations=viol, digest=digest(digs),
                sig=' '.join(sorted(stats['templates'])) + '|' + ','.join(sorted(stats['forms'])),
                nontrivial=stats['calls'] >= 2,
                probes={f'template:{t}': 1 for t in stats['templates']} |
                       {f'form:{f}': 1 for f in stats['forms']},
                faults={'argument_form_varied': stats['formed_calls'],
                        'scalar_vs_stacked': stats['row0_calls'],
                        'result_fed_back_into_pool': stats['pool_reuse'],
                        'capacity_knob_small': int(sc.get('initial_size', 10000) < 10000),
                        'module_state_reset_before_each_replayed_call':
                            int(bool(sc.get('cold_replay')))},
                sim_s=0.0, ops=stats['calls'],
                extra=dict(calls=stats['calls'], filter_runs=stats['filters'],
                           module_reloads=_RELOAD['n'] - reloads0,
                           max_module_reload_seconds=_RELOAD['worst'],
                           module_reload_disabled_too_slow=int(_RELOAD['disabled'])))


def shrink(sc, vclass):
    def pred(c):
        return any(v['class'] == vclass for v in execute(c)['violations'])
    c = copy.deepcopy(sc)

    def with_ops(ops):
        d = copy.deepcopy(c)
        d['ops'] = ops
        return d
    c['ops'] = ddmin_list(c['ops'], lambda o: pred(with_ops(o)), min_len=1)
    return c


def sample_view(sc):
    return dict(world_seed=sc['world_seed'], initial_size=sc['initial_size'],
                ops=[o[0] for o in sc['ops']])


def describe():
    cat = sorted(api.T)
    public = api.public_callables()
    covered = set()
    for t in cat:
        base = t.split('[')[0]
        covered.add(base)
    uncovered = [p for p in public if p not in covered and p not in api.EXCLUDED]
    return dict(
        rule=("Each run: one seeded PROGRAM of 10-30 calls drawn from a catalogue of "
              f"{len(cat)} call templates over the public callables of the ten modules; "
              "arguments come from a live value pool (stub world tables plus results of "
              "earlier calls, so aliasing is exercised) in a randomly drawn documented form "
              "(ndarray / list / tuple / Fortran order / non-contiguous view / Series / "
              "DataFrame, scalar-vs-stacked; label-addressed tables with permuted / reversed "
              "columns or an extra leading column; integer seeds as numpy integers). "
              "Monitors per call: argument snapshot, repeat on "
              "deep copies, form equivalence vs ndarray form (1e-9 x output scale), schema; "
              "after the program every call is replayed in isolation from its pre-call "
              "copies. Non-trivial = program with >= 2 calls; distinct = distinct (set of "
              "templates, set of forms). Catalogue: " + ', '.join(cat) +
              ". Public callables without a template: " +
              (', '.join(uncovered) if uncovered else 'none') + ". Excluded: " +
              '; '.join(f"{k} ({v})" for k, v in api.EXCLUDED.items() if v)),
        real=['every public callable named in the catalogue (pyins.earth, error_model, '
              'filters, inertial_sensor, kalman, measurements, sim, strapdown, transform, '
              'util)'],
        stub=['base world tables (motion, IMU samples)', 'argument/form/seed choices'],
        assumptions=[
            "Sampling of programs, not enumeration of call sites and orders.",
            "Forms are varied only where the docstring says array_like; Series/DataFrame "
            "forms only for parameters that carry a pyins table kind or a column a user "
            "slices out of one (lat/alt vectors, lla/rph/velocity triples).",
            "Documented exceptions to purity: estimate state (bias, transform) of sensor "
            "models handed to a filter; rng / data_frame of Parameters objects; mutator "
            "methods on their own object.",
            "sim.Turntable.generate_imu is excluded (pre-existing failure under the "
            "installed scipy)."],
        probes_wanted=[f'template:{t}' for t in cat] +
                      [f'form:{f}' for f in ('list', 'tuple', 'fortran', 'noncontig',
                                             'series', 'dataframe', 'row0', 'cols_permuted',
                                             'cols_reversed', 'extra_leading_col',
                                             'np_int64', 'np_int32', 'labels_permuted',
                                             'labels_reversed', 'int64', 'int_list')])
