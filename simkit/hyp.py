"""Second, independent generator for the Integrator call-history machine: Hypothesis.

The first generator (hist.generate) is hand-written and was tuned over several rounds of
seeded changes; its biases are mine.  This one lets Hypothesis (6.x, outside pytest) draw the
operation sequence and every knob of a *history scenario* — the same explicit JSON that
``hist.execute`` runs and that replay files store — with Hypothesis' own biases (tiny and
boundary values, repeated elements, very short and degenerate histories) and its integrated
shrinker.  One process per PRNG value: process p of a batch runs
``hypothesis.seed(run_seed(VERIF_SEED, PROP+'/hyp', tier, p))``, database off, deadline off,
so a (VERIF_SEED, p) pair is one exactly repeatable sequence of examples; the sequence digest
is part of the determinism self-test.

The failing example Hypothesis ends on (its minimal one — it replays the shrunk example last)
is recorded by this module as an ordinary scenario, so the replay file does not depend on
Hypothesis at all.
"""
from . import env  # noqa: F401
import hashlib
import multiprocessing
import time
import traceback
from concurrent.futures import ProcessPoolExecutor

import numpy as np

from . import hist
from . import world as W
from .fworld import rng_of

try:
    import hypothesis
    from hypothesis import strategies as st
    from hypothesis import HealthCheck, Phase, given, settings
    HAVE = True
except Exception:                                     # pragma: no cover
    HAVE = False

PERIODS = [0.005, 0.01, 0.02, 0.05, 0.1, 0.013, 1.0]
SIZES = [1, 2, 3, 4, 5, 6, 7, 8, 9, 12, 16, 17, 10000]


def _pva():
    lat = st.floats(-75, 75)
    vel = st.one_of(st.sampled_from([0.0, -0.0, 1.0]), st.floats(-60, 60))
    vd = st.one_of(st.sampled_from([0.0, 1e-9, -1e-12, 5.0, -8.0]), st.floats(-8, 8))
    ang = st.one_of(st.sampled_from([0.0, 40.0, -40.0]), st.floats(-40, 40))
    head = st.one_of(st.sampled_from([0.0, 180.0, -180.0, 90.0, 179.99999999999997]),
                     st.floats(-180, 180))
    return st.tuples(lat, st.floats(-180, 180), st.floats(-100, 9000), vel, vel, vd,
                     ang, ang, head).map(lambda t: [float(x) for x in t])


def _ops(n):
    k = st.one_of(st.integers(0, 3), st.integers(0, n), st.just(n))
    alpha = st.one_of(st.sampled_from([0.0, 1.0, 0.5]),
                      st.floats(0.0, 1.0, allow_nan=False))
    op = st.one_of(
        k.map(lambda x: ['integrate', int(x)]),
        st.just(['predict']),
        alpha.map(lambda a: ['predict_scaled', float(a)]),
        st.just(['get_pva']), st.just(['get_time']),
        _pva().map(lambda p: ['set_pva', p]),
        st.tuples(_pva(), st.sampled_from(['none', 'first', 'other', 'int'])).map(
            lambda t: ['set_pva', t[0], t[1]]),
        st.lists(st.floats(-3, 3), min_size=5, max_size=5).map(
            lambda v: ['fix_position', [float(x) for x in v]]),
        st.just(['set_pva_roundtrip']),
        _pva().map(lambda p: ['set_pva_scribble', p]),
        st.just(['get_pva_scribble']))
    return st.lists(op, min_size=1, max_size=30)


@st.composite
def scenarios(draw, force_2d):
    n = draw(st.one_of(st.integers(1, 6), st.integers(1, 40)))
    if draw(st.integers(0, 19)) == 19:
        n = draw(st.integers(100, 230))       # calls of 100+ rows (1 example in 20)
    world_seed = draw(st.integers(0, 2 ** 20))
    wd = W.make_world(rng_of(world_seed))
    if draw(st.booleans()):
        wd['rate_terms'] = wd['rate_terms'][:1]
    origin = draw(st.sampled_from([0.0, -7.5, 4.0e5, 1e-3, 86399.99]))
    regular = draw(st.booleans())
    if regular:
        dts = [draw(st.sampled_from(PERIODS[:5]))] * n
    else:
        dts = draw(st.lists(st.sampled_from(PERIODS), min_size=n, max_size=n))
    stamps = [float(origin)]
    for d in dts:
        stamps.append(float(stamps[-1] + d))
    stamping = draw(st.sampled_from(['right', 'right', 'left', 'int_ns']))
    knobs = dict(with_altitude=False if force_2d else draw(st.booleans()),
                 initial_size=draw(st.sampled_from(SIZES)), stamping=stamping,
                 inc_cols=draw(st.sampled_from([None, None, 'reversed', 'rotated',
                                                'extra_leading'])),
                 observe=draw(st.booleans()))
    perturb = dict(seed=draw(st.integers(0, 2 ** 31 - 1)),
                   theta=draw(st.sampled_from([0.0, 1e-4, 1e-2])),
                   dv=draw(st.sampled_from([0.0, 1e-2, 0.5])),
                   vertical=draw(st.sampled_from([0.0, 5.0, -20.0])))
    if draw(st.booleans()):
        perturb['zero_rows'] = sorted(set(draw(st.lists(st.integers(0, n - 1), min_size=1,
                                                        max_size=3))))
        perturb['zero_what'] = draw(st.sampled_from(['theta', 'dv', 'both']))
    init = draw(_pva())
    init[0] = float(np.clip(wd['lat'] + 0.01 * init[0] / 75.0, -78, 78))
    init[1] = float(wd['lon'])
    ops = draw(_ops(n))
    return dict(format=1, kind='history', generator='hypothesis', world=wd,
                imu=dict(type=draw(st.sampled_from(['rate', 'increment'])), stamps=stamps),
                perturb=perturb, initial=init, knobs=knobs, ops=ops)


def in_domain(sc):
    from pyins import strapdown
    try:
        m = hist.materialise(sc)
        big = strapdown.Integrator(m['initial'], True).integrate(m['increments'])
    except Exception:
        return False
    return bool(W.in_fence(big))


def _worker(args):
    """One Hypothesis process: returns dict(examples, digest, violation=None|(sc, v))."""
    want, force_2d, seed, n_examples, budget_s = args
    state = dict(n=0, valid=0, h=hashlib.sha256(), last_fail=None, sigs=set(), ops=0,
                 grow=0, set_pva=0, predicts=0, t0=time.time())
    exc_types = {}

    def exc_for(cls):
        if cls not in exc_types:
            exc_types[cls] = type('Violation_' + ''.join(c if c.isalnum() else '_'
                                                         for c in cls), (Exception,), {})
        return exc_types[cls]

    @hypothesis.seed(seed)
    @settings(max_examples=n_examples, database=None, deadline=None, derandomize=False,
              report_multiple_bugs=False, suppress_health_check=list(HealthCheck),
              phases=[Phase.generate, Phase.shrink], print_blob=False)
    @given(scenarios(force_2d))
    def run(sc):
        state['n'] += 1
        hypothesis.assume(in_domain(sc))
        v02, v13, stt, dg = hist.execute(sc, want=want)
        viol = v02 if want == 'C02' else v13
        state['valid'] += 1
        state['h'].update(dg.encode())
        state['sigs'].add(stt['sig'])
        state['ops'] += stt['ops']
        state['grow'] += int(bool(stt['grow']))
        state['set_pva'] += int(bool(stt['set_pva']))
        state['predicts'] += int(bool(stt['predicts']))
        if viol:
            state['last_fail'] = (sc, viol[0])
            raise exc_for(viol[0]['class'])(viol[0]['detail'])

    try:
        run()
    except Exception as e:
        if state['last_fail'] is None or not type(e).__name__.startswith('Violation_'):
            if isinstance(e, hypothesis.errors.Unsatisfiable):
                pass
            else:
                return dict(harness_error=traceback.format_exc(), seed=seed)
    return dict(seed=seed, examples=state['n'], valid=state['valid'],
                digest=state['h'].hexdigest() if state['last_fail'] is None else 'violation',
                violation=state['last_fail'], distinct=len(state['sigs']),
                ops=state['ops'], grow=state['grow'], set_pva=state['set_pva'],
                predicts=state['predicts'], wall=time.time() - state['t0'])


def run_phase(prop, want, force_2d, verif_seed, tier, n_procs, per_proc, workers,
              only=None):
    """Run ``n_procs`` Hypothesis processes of ``per_proc`` examples each."""
    from .runner import run_seed
    seeds = [run_seed(verif_seed, prop + '/hyp', tier, p) for p in range(n_procs)]
    jobs = [(want, force_2d, s, per_proc, 0) for s in seeds]
    if only is not None:
        jobs = [jobs[i] for i in only]
    ctx = multiprocessing.get_context('fork')
    with ProcessPoolExecutor(max_workers=workers, mp_context=ctx) as ex:
        return list(ex.map(_worker, jobs))
