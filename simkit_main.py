import os
import sys

sys.path.insert(0, os.path.dirname(os.path.abspath(__file__)))
if len(sys.argv) < 2:
    raise SystemExit("usage: check <PROPERTY-ID> [--tier quick|thorough] [--replay FILE]")
prop = sys.argv[1].upper()
import importlib  # noqa: E402

try:
    mod = importlib.import_module('simkit.' + prop.lower())
except ModuleNotFoundError as e:
    if e.name == 'simkit.' + prop.lower():
        raise SystemExit(f"no check for {prop}")
    raise
from simkit import runner  # noqa: E402

sys.exit(runner.main(mod, sys.argv[2:]))
