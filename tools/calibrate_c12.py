#!/venv/bin/python
"""Calibration of the C12 error-scale ladder: metrics of N clean ladder worlds.
usage: tools/calibrate_c12.py N [seed] -> /verif/tools/c12_calibration.json + summary"""
import json
import multiprocessing
import os
import sys
from concurrent.futures import ProcessPoolExecutor

sys.path.insert(0, os.path.dirname(os.path.dirname(os.path.abspath(__file__))))
from simkit import env, runner, c12  # noqa: E402,F401
import numpy as np  # noqa: E402

SEED = int(sys.argv[2]) if len(sys.argv) > 2 else 7


def one(i):
    rs = runner.run_seed(SEED, 'C12', 'cal', i)
    sc = c12._gen_F(rs)
    try:
        met = c12._ladder_metrics(sc)
    except Exception as e:
        return dict(i=i, err=str(e)[:100])
    kn = sc['knobs']
    shared = len([t for s in sc['sensors'] for t in s['stamps']]) > \
        len({t for s in sc['sensors'] for t in s['stamps']})
    return dict(i=i, regime=sc['regime'], wa=bool(kn['with_altitude']), ts=kn['time_step'],
                shared=shared, quiet=bool(sc.get('quiet')), asyn=bool(sc.get('asynchronous')), mask=any(isinstance(kn[w]['bias_sd'], list)
                                        for w in ('gyro_model', 'accel_model')),
                met=[[m['D'], m['Dg'], m['Da'], m['Dsd']] for m in met])


if __name__ == '__main__':
    n = int(sys.argv[1])
    runner.warm_up()
    with ProcessPoolExecutor(int(os.environ.get('VERIF_WORKERS', '12')),
                             mp_context=multiprocessing.get_context('fork')) as ex:
        res = list(ex.map(one, range(n), chunksize=4))
    json.dump(res, open(os.path.join(os.path.dirname(__file__), 'c12_calibration_quiet.json' if os.environ.get('VERIF_C12_QUIET') else 'c12_calibration.json'), 'w'))
    ok = [r for r in res if 'err' not in r]
    print(len(ok), 'worlds;', len(res) - len(ok), 'errors')
    for quiet in (False, True):
     print('quiet worlds' if quiet else 'ordinary worlds')
     for reg in ('weak', 'strong'):
      for asyn in (False, True):
        for wa in (True, False):
            rr = [r for r in ok if r['regime'] == reg and r['wa'] == wa and r['asyn'] == asyn
                  and bool(r.get('quiet')) == quiet]
            if not rr:
                continue
            m = np.array([r['met'] for r in rr])        # world, scale, metric
            e1 = (m[:, 1, :3] - 0.5 * m[:, 0, :3]).max()
            e2 = (m[:, 2, :3] - 0.2 * m[:, 1, :3]).max()
            s1 = (m[:, 1, 3] - 0.5 * m[:, 0, 3]).max()
            s2 = (m[:, 2, 3] - 0.2 * m[:, 1, 3]).max()
            print(f"{reg:6s} {'async' if asyn else 'sync '} {'3d' if wa else '2d'} n={len(rr):5d}  estimates: excess1(0.5) "
                  f"{e1:.4f} excess2(0.2) {e2:.4f} | sigma: excess1(0.5) {s1:.2e} "
                  f"excess2(0.2) {s2:.2e}  D1max {m[:, 0, :3].max():.2f}")
