#!/venv/bin/python
"""Run the checks against the independently seeded changes in /verif/seeded/<id>/.

Each change is applied to a scratch copy of /repo/pyins under /tmp (never to /repo), the
property's quick check is pointed at the copy with VERIF_REPO, the copy is removed.
usage: tools/seeded.py [--all-checks] [ID ...]     -> /verif/seeded/RESULTS.md
"""
import json
import os
import shutil
import subprocess
import sys
import tempfile
import time

VERIF = os.path.dirname(os.path.dirname(os.path.abspath(__file__)))
SEEDED = os.path.join(VERIF, 'seeded')
ALL = ['C02', 'C09', 'C10', 'C11', 'C12', 'C13', 'C19']


def run_check(prop, repo, runs=None, seed='0'):
    env = dict(os.environ, VERIF_REPO=repo, VERIF_SEED=seed)
    cmd = [os.path.join(VERIF, 'check'), prop, '--tier', 'quick', '--no-selftest',
           '--no-evidence']
    if runs:
        cmd += ['--runs', str(runs)]
    t0 = time.time()
    p = subprocess.run(cmd, env=env, capture_output=True, text=True, timeout=1800)
    first, nv = '', ''
    for line in p.stdout.splitlines():
        if line.startswith('  run ') and not first:
            first = line.strip()[:300]
        if 'violating_runs=' in line:
            nv = line.split('violating_runs=')[1].split()[0] + '/' + \
                line.split('runs=')[1].split()[0]
    status = {0: 'MISSED', 1: 'CAUGHT'}.get(p.returncode, f'HARNESS({p.returncode})')
    if p.returncode not in (0, 1):
        first = (p.stdout + p.stderr)[-400:].replace('\n', ' ')
    for f in os.listdir(os.path.join(VERIF, 'replays')):
        if f.endswith('.json'):
            os.remove(os.path.join(VERIF, 'replays', f))
    return dict(status=status, violating=nv, first=first, wall=round(time.time() - t0, 1))


def main():
    all_checks = '--all-checks' in sys.argv
    ids = [a for a in sys.argv[1:] if not a.startswith('--')]
    store = os.path.join(SEEDED, 'results.json')
    db = json.load(open(store)) if os.path.exists(store) else {}
    for sid in sorted(os.listdir(SEEDED)):
        d = os.path.join(SEEDED, sid)
        if not os.path.isdir(d) or (ids and sid not in ids):
            continue
        meta = json.load(open(os.path.join(d, 'meta.json')))
        tmp = tempfile.mkdtemp(prefix='pyins_seeded_', dir='/tmp')
        os.rmdir(tmp)
        try:
            # a scratch git worktree of /repo's HEAD (outside /repo and /verif), so that a
            # change written against an earlier commit can be applied with a 3-way merge
            subprocess.run(['git', '-C', '/repo', 'worktree', 'add', '-q', '--detach', tmp,
                            'HEAD'], check=True, capture_output=True)
            p = subprocess.run(['git', 'apply', '--3way', os.path.join(d, 'patch.diff')],
                               cwd=tmp, capture_output=True, text=True)
            conflict = subprocess.run(['git', 'diff', '--name-only', '--diff-filter=U'],
                                      cwd=tmp, capture_output=True, text=True).stdout.strip()
            if p.returncode != 0 or conflict:
                # the change overlaps a later fix: commit; fall back to the commit it was
                # written against (recorded in meta.json) - only for properties whose check
                # does not depend on that later fix
                base = meta.get('base_commit') or meta['author'].split()[-1]
                subprocess.run(['git', 'checkout', '-q', '--detach', '-f', base], cwd=tmp,
                               capture_output=True)
                p = subprocess.run(['git', 'apply', os.path.join(d, 'patch.diff')],
                                   cwd=tmp, capture_output=True, text=True)
                conflict = ''
                db.setdefault(sid, {})['applied_on'] = base
            if p.returncode != 0 or conflict:
                db.setdefault(sid, {}).update(prop=meta['property'], rebase='PATCH-FAILED on '
                                              'current HEAD: ' + (p.stderr or conflict)[-200:])
                print(sid, 'PATCH-FAILED', (p.stderr or conflict)[-200:])
                continue
            props = ALL if all_checks else [meta['property']]
            res = {}
            for prop in props:
                res[prop] = run_check(prop, tmp)
                print(f"{sid:34s} {prop} {res[prop]['status']:8s} {res[prop]['violating']:10s} "
                      f"{res[prop]['wall']}s {res[prop]['first'][:160]}", flush=True)
            entry = db.get(sid, {})
            entry.update(prop=meta['property'], what=meta.get('what', ''))
            entry.setdefault('checks', {}).update(res)
            db[sid] = entry
            json.dump(db, open(store, 'w'), indent=1, sort_keys=True)
        finally:
            subprocess.run(['git', '-C', '/repo', 'worktree', 'remove', '--force', tmp],
                           capture_output=True)
            shutil.rmtree(tmp, ignore_errors=True)
            subprocess.run(['git', '-C', '/repo', 'worktree', 'prune'], capture_output=True)
    with open(os.path.join(SEEDED, 'RESULTS.md'), 'w') as f:
        f.write("# Independently seeded changes vs. the quick checks\n\n"
                "Each change was written by a fresh sub-agent that saw only the property "
                "text and its own worktree (nothing from /verif). `tools/seeded.py` applies "
                "it to a scratch copy and runs the quick check(s) with VERIF_SEED=0.\n\n"
                "| change | breaks | what | check | result | violating runs | first report |\n"
                "|---|---|---|---|---|---|---|\n")
        for sid in sorted(db):
            e = db[sid]
            for prop, r in sorted(e.get('checks', {}).items()):
                f.write(f"| {sid} | {e['prop']} | {e.get('what', '')[:160]} | {prop} | "
                        f"{r['status']} | {r.get('violating', '')} | "
                        f"{r.get('first', '').replace('|', '/')[:220]} |\n")


if __name__ == '__main__':
    main()
