#!/venv/bin/python
"""Soundness test: property-preserving refactorings written by independent sub-agents
(/verif/benign/<id>/patch.diff + notes.md with the argument why every property still
holds).  Each is applied to a scratch git worktree of /repo's HEAD under /tmp and ALL
quick checks are run against it; any VIOLATION or harness error is a false alarm of the
machinery (or shows that the refactoring is not as benign as its author argued - decided by
reading the report).   usage: tools/benign.py [--checks=C10,C19] [ID ...]  -> /verif/benign/RESULTS.md
"""
import json
import os
import shutil
import subprocess
import sys
import tempfile
import time

VERIF = os.path.dirname(os.path.dirname(os.path.abspath(__file__)))
BEN = os.path.join(VERIF, 'benign')
ALL = ['C02', 'C09', 'C10', 'C11', 'C12', 'C13', 'C19']


def main():
    ids = [a for a in sys.argv[1:] if not a.startswith('--')]
    only = [a.split('=')[1].split(',') for a in sys.argv[1:] if a.startswith('--checks=')]
    checks = only[0] if only else ALL
    store = os.path.join(BEN, 'results.json')
    db = json.load(open(store)) if os.path.exists(store) else {}
    for bid in sorted(os.listdir(BEN)):
        d = os.path.join(BEN, bid)
        if not os.path.isdir(d) or (ids and bid not in ids):
            continue
        tmp = tempfile.mkdtemp(prefix='pyins_benign_', dir='/tmp')
        os.rmdir(tmp)
        try:
            subprocess.run(['git', '-C', '/repo', 'worktree', 'add', '-q', '--detach', tmp,
                            'HEAD'], check=True, capture_output=True)
            p = subprocess.run(['git', 'apply', '--3way', os.path.join(d, 'patch.diff')],
                               cwd=tmp, capture_output=True, text=True)
            if p.returncode != 0:
                db[bid] = dict(status='PATCH-FAILED', detail=p.stderr[-200:])
                print(bid, 'PATCH-FAILED', p.stderr[-200:])
                continue
            res = db.get(bid, {}).get('checks', {})
            for prop in checks:
                env = dict(os.environ, VERIF_REPO=tmp, VERIF_SEED='0')
                t0 = time.time()
                q = subprocess.run([os.path.join(VERIF, 'check'), prop, '--tier', 'quick',
                                    '--no-selftest', '--no-evidence'], env=env,
                                   capture_output=True, text=True, timeout=1800)
                first = ''
                for line in q.stdout.splitlines():
                    if line.startswith('  run ') and not first:
                        first = line.strip()[:300]
                status = {0: 'pass', 1: 'ALARM'}.get(q.returncode, f'HARNESS({q.returncode})')
                if q.returncode not in (0, 1):
                    first = (q.stdout + q.stderr)[-400:].replace('\n', ' ')
                res[prop] = dict(status=status, first=first, wall=round(time.time() - t0, 1))
                print(f"{bid:6s} {prop} {status:10s} {res[prop]['wall']}s {first[:200]}",
                      flush=True)
                for f in os.listdir(os.path.join(VERIF, 'replays')):
                    if f.endswith('.json'):
                        os.remove(os.path.join(VERIF, 'replays', f))
            db[bid] = dict(checks=res)
            json.dump(db, open(store, 'w'), indent=1, sort_keys=True)
        finally:
            subprocess.run(['git', '-C', '/repo', 'worktree', 'remove', '--force', tmp],
                           capture_output=True)
            shutil.rmtree(tmp, ignore_errors=True)
            subprocess.run(['git', '-C', '/repo', 'worktree', 'prune'], capture_output=True)
    with open(os.path.join(BEN, 'RESULTS.md'), 'w') as f:
        f.write("# Property-preserving refactorings vs. all quick checks\n\n"
                "| refactoring | " + ' | '.join(ALL) + " | first report (if any) |\n|---|" +
                '---|' * (len(ALL) + 1) + "\n")
        for bid in sorted(db):
            ch = db[bid].get('checks', {})
            firsts = '; '.join(f"{p}: {ch[p]['first'][:160]}" for p in ALL
                               if ch.get(p, {}).get('status') not in (None, 'pass'))
            f.write(f"| {bid} | " + ' | '.join(ch.get(p, {}).get('status', '?') for p in ALL) +
                    f" | {firsts.replace('|', '/')} |\n")


if __name__ == '__main__':
    main()
