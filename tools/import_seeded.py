#!/venv/bin/python
"""Import a change written by an adversary sub-agent into /verif/seeded/<id>/ after
confirming, in a scratch copy of /repo under /tmp, that
  * demo.py passes on the unchanged tree and fails with the change,
  * the change applies cleanly, and the existing test suite still has the baseline
    passing (55 passed, test_Turntable the one pre-existing failure).
usage: tools/import_seeded.py <PROP> <agent_change_dir> <new_id> "<one line: what>"
"""
import json
import os
import shutil
import subprocess
import sys
import tempfile

VERIF = os.path.dirname(os.path.dirname(os.path.abspath(__file__)))


def sh(cmd, cwd, timeout=1800):
    p = subprocess.run(cmd, cwd=cwd, shell=True, capture_output=True, text=True,
                       timeout=timeout)
    return p.returncode, (p.stdout + p.stderr)


def main():
    prop, src, sid, what = sys.argv[1:5]
    skip_tests = '--skip-tests' in sys.argv
    dst = os.path.join(VERIF, 'seeded', sid)
    tmp = tempfile.mkdtemp(prefix='pyins_import_', dir='/tmp')
    try:
        clean = os.path.join(tmp, 'clean')
        mut = os.path.join(tmp, 'mut')
        for d in (clean, mut):
            os.makedirs(d)
            shutil.copytree('/repo/pyins', os.path.join(d, 'pyins'),
                            ignore=shutil.ignore_patterns('__pycache__'))
            shutil.copy('/repo/pyproject.toml', d)
        rc, out = sh(f"patch -p1 -s -i {src}/patch.diff", mut)
        if rc != 0:
            print(sid, 'PATCH DOES NOT APPLY', out[-300:])
            return 1
        demo = os.path.join(src, 'demo.py')
        rc_clean, out_clean = sh(f"PYTHONPATH={clean} /venv/bin/python {demo}", clean, 900)
        rc_mut, out_mut = sh(f"PYTHONPATH={mut} /venv/bin/python {demo}", mut, 900)
        tests = 'skipped'
        if not skip_tests:
            rc_t, out_t = sh("/venv/bin/python -m pytest -q -p no:cacheprovider --timeout=900 "
                             "pyins/tests 2>&1 | tail -3", mut, 2400)
            tests = out_t.strip().splitlines()[-1] if out_t.strip() else f'rc={rc_t}'
        ok = rc_clean == 0 and rc_mut != 0 and (skip_tests or ('55 passed' in tests and
                                                               '1 failed' in tests))
        print(f"{sid}: demo clean rc={rc_clean}, demo with change rc={rc_mut}, tests: {tests} "
              f"-> {'CONFIRMED' if ok else 'NOT CONFIRMED'}")
        if not ok:
            print(out_clean[-300:], '\n---\n', out_mut[-300:])
            return 1
        os.makedirs(dst, exist_ok=True)
        for f in ('patch.diff', 'demo.py', 'notes.md'):
            if os.path.exists(os.path.join(src, f)):
                shutil.copy(os.path.join(src, f), dst)
        for extra in os.listdir(src):
            if extra.endswith('.py') and extra != 'demo.py':
                shutil.copy(os.path.join(src, extra), dst)
        meta = dict(id=sid, property=prop, what=what,
                    needs_to_manifest='see notes.md (written by the sub-agent)',
                    author='independent sub-agent; saw only the property text and its own '
                           'worktree of /repo at ' +
                           subprocess.run(['git', '-C', '/repo', 'rev-parse', '--short', 'HEAD'],
                                          capture_output=True, text=True).stdout.strip(),
                    confirmed=dict(demo_on_unchanged_tree=f'exit {rc_clean}',
                                   demo_with_change=f'exit {rc_mut}',
                                   existing_tests_with_change=tests,
                                   how='tools/import_seeded.py: scratch copies under /tmp, '
                                       'PYTHONPATH=<copy> /venv/bin/python demo.py; '
                                       'pytest pyins/tests in the patched copy'))
        json.dump(meta, open(os.path.join(dst, 'meta.json'), 'w'), indent=1)
        return 0
    finally:
        shutil.rmtree(tmp, ignore_errors=True)


if __name__ == '__main__':
    sys.exit(main())
