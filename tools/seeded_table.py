#!/venv/bin/python
"""Markdown table: seeded change x (caught by the checks as first built / by the current
checks), from seeded/results_before.json and seeded/results.json."""
import json
import os
V = os.path.dirname(os.path.dirname(os.path.abspath(__file__)))
now = json.load(open(os.path.join(V, 'seeded', 'results.json')))
bef = json.load(open(os.path.join(V, 'seeded', 'results_before.json')))
print("| change | breaks | what it is | first-built check | current check (violating runs) | caught as |")
print("|---|---|---|---|---|---|")
for sid in sorted(now):
    e = now[sid]
    r = e['checks'].get(e['prop'], {})
    b = bef.get(sid, {})
    cls = r.get('first', '').split(': ')[1] if ': ' in r.get('first', '') else ''
    print(f"| {sid} | {e['prop']} | {e.get('what','')} | {b.get('status','?').lower()} "
          f"{b.get('violating','')} | {r.get('status','?').lower()} {r.get('violating','')} | {cls} |")
