#!/venv/bin/python
"""Reach of the generators in terms of the code under test: run N seeded runs of every
check in this process under line+branch coverage of <VERIF_REPO>/pyins (tests excluded) and
list what the simulated runs never executed in the files the properties are anchored in.

    tools/reach.py [N] [PROP ...]      ->  /verif/REACH.md, tools/reach.json

The numba kernel (_numba_integrate.py) runs compiled and therefore never shows as executed;
it is listed separately.  This is a reach *measure* for the evidence, not a verdict.
"""
import importlib
import json
import os
import sys

VERIF = os.path.dirname(os.path.dirname(os.path.abspath(__file__)))
sys.path.insert(0, VERIF)
os.environ.setdefault('PYINS_VERIF', '1')

import coverage  # noqa: E402

ANCHORS = {
    'C02': ['strapdown.py'],
    'C09': ['filters.py', 'strapdown.py'],
    'C10': ['filters.py'],
    'C11': ['filters.py', 'kalman.py', 'error_model.py', 'inertial_sensor.py'],
    'C12': ['filters.py', 'error_model.py', 'inertial_sensor.py', 'strapdown.py'],
    'C13': ['strapdown.py', 'error_model.py', 'measurements.py', 'filters.py'],
    'C19': ['transform.py', 'sim.py', 'strapdown.py', 'error_model.py', 'filters.py',
            'inertial_sensor.py', 'kalman.py', 'earth.py', 'util.py', 'measurements.py'],
}


# functions of an anchored file that belong to another property's behaviour
OUT_OF_SCOPE = {
    'C09': {'filters.py': ['run_feedforward_filter', '_compute_feedforward_result']},
    'C10': {'filters.py': ['run_feedback_filter', '_correct_increments', '_compute_sd']},
    'C11': {'filters.py': ['run_feedback_filter', '_correct_increments', '_compute_sd'],
            'inertial_sensor.py': ['Parameters', 'apply_imu_parameters', 'update_estimates',
                                   'correct_increments', 'get_estimates'],
            'error_model.py': ['propagate_errors', 'correct_pva']},
    'C12': {'inertial_sensor.py': ['Parameters', 'apply_imu_parameters'],
            'error_model.py': ['propagate_errors']},
    'C13': {'error_model.py': ['propagate_errors']},
    'C19': {'sim.py': ['Turntable.generate_imu']},
}


def out_of_scope_lines(path, names):
    import ast
    out = set()
    tree = ast.parse(open(path).read())
    for nd in ast.walk(tree):
        if isinstance(nd, (ast.FunctionDef, ast.ClassDef)) and nd.name in names:
            out.update(range(nd.lineno, (nd.end_lineno or nd.lineno) + 1))
        if isinstance(nd, ast.ClassDef):
            for sub in nd.body:
                if isinstance(sub, ast.FunctionDef) and f"{nd.name}.{sub.name}" in names:
                    out.update(range(sub.lineno, (sub.end_lineno or sub.lineno) + 1))
    return out


def import_time_lines(path):
    """Statements that run when the module is imported (before measurement starts)."""
    import ast
    out = set()

    def walk(body):
        for st in body:
            if isinstance(st, (ast.FunctionDef, ast.AsyncFunctionDef)):
                out.add(st.lineno)
                for d in st.decorator_list:
                    out.add(d.lineno)
            elif isinstance(st, ast.ClassDef):
                out.add(st.lineno)
                walk(st.body)
            else:
                for k in range(st.lineno, (st.end_lineno or st.lineno) + 1):
                    out.add(k)
    walk(ast.parse(open(path).read()).body)
    return out


def main():
    args = sys.argv[1:]
    n = int(args[0]) if args and args[0].isdigit() else 120
    props = [a for a in args if not a.isdigit()] or list(ANCHORS)
    from simkit import env, runner
    pkg = os.path.join(env.REPO, 'pyins')
    out = {}
    for prop in props:
        cov = coverage.Coverage(branch=True, include=[pkg + '/*.py'], data_file=None,
                                omit=[pkg + '/tests/*'])
        mod = importlib.import_module(f'simkit.{prop.lower()}')
        runner.warm_up()
        cov.start()
        viol = 0
        for i in range(n):
            res = runner._one(mod, 0, 'quick', i)
            viol += bool(res['violations'])
        cov.stop()
        rep = {}
        for f in ANCHORS[prop]:
            path = os.path.join(pkg, f)
            an = cov._analyze(path)
            src = open(path).read().splitlines()
            oos = out_of_scope_lines(path, OUT_OF_SCOPE.get(prop, {}).get(f, []))
            missing = sorted(set(an.missing) - import_time_lines(path) - oos)
            error_exits = [k for k in missing
                           if src[k - 1].strip().startswith(('raise ', 'assert False'))]
            missing = [k for k in missing if k not in error_exits]
            arcs = sorted((a, b) for a, bs in an.missing_branch_arcs().items() for b in bs)
            rep[f] = dict(statements=len(set(an.statements) - import_time_lines(path) - oos),
                          error_exits_not_taken=error_exits, missed=missing,
                          missed_src={str(k): src[k - 1].strip() for k in missing},
                          missed_branches=[[a, b] for a, b in arcs
                                           if a not in an.missing and b not in an.missing
                                           and a > 0 and b > 0 and a not in oos],
                          missed_branch_src={str(a): src[a - 1].strip() for a, b in arcs
                                             if a not in an.missing and b not in an.missing
                                             and a > 0 and b > 0})
        out[prop] = dict(runs=n, violating=viol, files=rep)
        print(prop, {f: (len(r['missed']), len(r['missed_branches']))
                     for f, r in rep.items()}, flush=True)
    json.dump(out, open(os.path.join(VERIF, 'tools', 'reach.json'), 'w'), indent=1)
    with open(os.path.join(VERIF, 'REACH.md'), 'w') as f:
        f.write("# Reach of the simulated runs inside the anchored source files\n\n"
                "`tools/reach.py`: the first N quick-tier runs of every check (VERIF_SEED=0), "
                "executed under line+branch coverage of `pyins/*.py`. Listed: statements of "
                "the property's anchored files that no run executed, and branch arcs never "
                "taken between executed lines. (Statements that run at import time are left out; so are functions of an anchored file that belong to another property, e.g. the feedforward filter for C09, and `Turntable.generate_imu`, which fails under the installed scipy - baseline always_fail.)\n\n")
        for prop, d in out.items():
            f.write(f"## {prop} ({d['runs']} runs)\n\n")
            for fn, r in d['files'].items():
                f.write(f"**{fn}** — {len(r['missed'])} of {r['statements']} in-scope "
                        f"statements not executed (plus {len(r['error_exits_not_taken'])} "
                        f"`raise`/`assert False` exits for out-of-domain input), "
                        f"{len(r['missed_branches'])} branch arcs not taken\n\n")
                if r['missed']:
                    f.write("```\n")
                    for k in r['missed']:
                        f.write(f"{k:5d}  {r['missed_src'][str(k)]}\n")
                    f.write("```\n")
                for a, b in r['missed_branches']:
                    f.write(f"- branch {a}->{b} never taken: `{r['missed_branch_src'][str(a)]}`\n")
                f.write("\n")


if __name__ == '__main__':
    main()
