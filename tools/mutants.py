#!/venv/bin/python
"""Sensitivity harness: apply single-site mutants to a scratch copy of /repo/pyins under
/tmp, point a check at it with VERIF_REPO, and record whether it reports a violation.

usage: tools/mutants.py [PROP ...]      (default: all catalogued)
Writes /verif/SENSITIVITY.md (table) from the results of this invocation merged with
the previous ones in /verif/tools/sensitivity.json.
"""
import json
import os
import shutil
import subprocess
import sys
import tempfile
import time

VERIF = os.path.dirname(os.path.dirname(os.path.abspath(__file__)))
REPO = '/repo'

# (id, property, file, old, new, description)
M = []


def mut(mid, prop, file, old, new, desc, runs=None):
    M.append(dict(id=mid, prop=prop, file=file, old=old, new=new, desc=desc, runs=runs))


F = 'pyins/filters.py'
S = 'pyins/strapdown.py'
K = 'pyins/kalman.py'
I = 'pyins/inertial_sensor.py'
E = 'pyins/error_model.py'
ME = 'pyins/measurements.py'
N = 'pyins/_numba_integrate.py'

# ---- C02
mut('c02-required-size', 'C02', S, "required_size = n_data + n_readings\n",
    "required_size = n_data + n_readings - 1\n", "capacity check off by one")
mut('c02-new-size', 'C02', S, "new_size = max(2 * size, required_size)",
    "new_size = 2 * size", "growth ignores the required size")
mut('c02-predict-appends', 'C02', S, "        elif mode == 'predict':\n            return trajectory",
    "        elif mode == 'predict':\n            self.trajectory = pd.concat([self.trajectory, trajectory])\n            return trajectory",
    "predict appends to the stored trajectory")
mut('c02-set-pva-skips-mat', 'C02', S, "        self.mat_nb[i] = transform.mat_from_rph(pva[RPH_COLS])\n        self.trajectory.iloc[-1] = pva",
    "        self.trajectory.iloc[-1] = pva", "set_pva does not update the attitude buffer")
mut('c02-return-tail', 'C02', S, "return self.trajectory.iloc[-n_readings - 1:]",
    "return self.trajectory.iloc[-n_readings:]", "integrate returns without the previous last row")
mut('c02-offset', 'C02', S, "theta, dv, n_data - 1, self.with_altitude)",
    "theta, dv, max(n_data - 2, 0), self.with_altitude)", "kernel offset off by one")
mut('c02-stale-rph-after-growth', 'C02', S, "            self.mat_nb.resize((new_size, 3, 3), refcheck=False)",
    "            self.mat_nb = np.resize(self.mat_nb, (new_size, 3, 3))\n            self.mat_nb[n_data - 1] = transform.mat_from_rph(self.trajectory.iloc[-1][RPH_COLS])",
    "attitude re-derived from Euler angles when the buffer grows (bitwise drift only)")
# ---- C09
mut('c09-revert-F1', 'C09', F, "measurement_times = np.hstack([np.empty(0)] + [\n        np.asarray(measurement.data.index) for measurement in measurements])\n    measurement_times = np.sort(np.unique(measurement_times))\n\n    start_time = initial_pva.name",
    "measurement_times = np.hstack([\n        np.asarray(measurement.data.index) for measurement in measurements])\n    measurement_times = np.sort(np.unique(measurement_times))\n\n    start_time = initial_pva.name", "revert fix F1 (feedback)")
mut('c09-revert-F2', 'C09', F, "        while (measurement_times[measurement_time_index] <\n               increments.index[increments_index]):\n            measurement_time = measurement_times[measurement_time_index]\n            increment = _correct_increments(increments.iloc[increments_index],\n                                            gyro_model, accel_model)\n",
    "        measurement_time = measurement_times[measurement_time_index]\n        increment = _correct_increments(increments.iloc[increments_index],\n                                        gyro_model, accel_model)\n        if measurement_time < increment.name:\n", "revert fix F2")
mut('c09-no-guard', 'C09', F, "        if next_increment_index == increments_index:\n            next_increment_index += 1\n",
    "", "drop the at-least-one-increment guard")
mut('c09-no-unique', 'C09', F, "    measurement_times = np.sort(np.unique(measurement_times))\n\n    start_time = initial_pva.name",
    "    measurement_times = np.sort(measurement_times)\n\n    start_time = initial_pva.name", "drop np.unique on merged epochs (feedback)")
mut('c09-start-gt', 'C09', F, "measurement_times[(measurement_times >= start_time) &\n                                          (measurement_times <= end_time)]\n    measurement_times = np.append(measurement_times, np.inf)\n    measurement_time_index = 0\n\n    P = _initialize_covariance(initial_pva",
    "measurement_times[(measurement_times > start_time) &\n                                          (measurement_times <= end_time)]\n    measurement_times = np.append(measurement_times, np.inf)\n    measurement_time_index = 0\n\n    P = _initialize_covariance(initial_pva", "sample exactly at the start time dropped")
mut('c09-stamp-time', 'C09', F, "                    innovations_times[name].append(measurement_time)",
    "                    innovations_times[name].append(time)", "innovation stamped with loop time, not its own")
mut('c09-skip-advance', 'C09', F, "            accel_model.update_estimates(x[accel_block])\n            measurement_time_index += 1",
    "            accel_model.update_estimates(x[accel_block])\n            measurement_time_index += 1 + (measurement_time_index % 5 == 3)", "every few epochs one epoch is skipped")
mut('c09-end-inclusive', 'C09', F, "    while integrator.get_time() < end_time:\n        time = integrator.get_time()\n        while (measurement_times[measurement_time_index] <\n               increments.index[increments_index]):",
    "    while integrator.get_time() < end_time:\n        time = integrator.get_time()\n        while (measurement_times[measurement_time_index] <=\n               increments.index[increments_index]):", "epoch on the next IMU sample handled one interval early (sd/innovation off-epoch)")
# ---- C10
mut('c10-revert-F3', 'C10', F, "        next_index = max(np.searchsorted(times, next_time, side='right') - 1,\n                         index + 1)",
    "        next_index = np.searchsorted(times, next_time, side='right') - 1", "revert fix F3")
mut('c10-revert-F4', 'C10', F, "        while measurement_times[measurement_time_index] < next_time:\n            measurement_time = measurement_times[measurement_time_index]\n            pva = _interpolate_pva(",
    "        measurement_time = measurement_times[measurement_time_index]\n        if measurement_time < next_time:\n            pva = _interpolate_pva(", "revert fix F4")
mut('c10-side-left', 'C10', F, "np.searchsorted(times, next_time, side='right') - 1", "np.searchsorted(times, next_time, side='left') - 1",
    "EQUIVALENT for C10: steps merely stop one row early when the target falls on a row; every clause still holds and the sample is still applied at its own row")
mut('c10-due-le', 'C10', F, "        while measurement_times[measurement_time_index] < next_time:",
    "        while measurement_times[measurement_time_index] <= next_time:", "sample on the next row consumed one interval early")
mut('c10-overshoot', 'C10', F, "        next_index = max(np.searchsorted(times, next_time, side='right') - 1,\n                         index + 1)",
    "        next_index = max(np.searchsorted(times, next_time, side='right'),\n                         index + 1)\n        next_index = min(next_index, len(times) - 1)", "grid steps one row beyond time_step")
mut('c10-end-clip', 'C10', F, "    measurement_times = measurement_times[(measurement_times >= start_time) &\n                                          (measurement_times <= end_time)]\n    measurement_times = np.append(measurement_times, np.inf)\n    measurement_time_index = 0\n\n    P = _initialize_covariance(trajectory_nominal.iloc[0]",
    "    measurement_times = measurement_times[(measurement_times > start_time) &\n                                          (measurement_times <= end_time)]\n    measurement_times = np.append(measurement_times, np.inf)\n    measurement_time_index = 0\n\n    P = _initialize_covariance(trajectory_nominal.iloc[0]", "sample exactly at the first row dropped")
# ---- C11
mut('c11-q-not-squared', 'C11', F, "G @ np.diag(q**2) @ G.transpose()", "G @ np.diag(q) @ G.transpose()", "noise enters as q instead of q**2")
mut('c11-swap-noise-blocks', 'C11', F, "    q = np.hstack((gyro_model.v, accel_model.v, gyro_model.q, accel_model.q))",
    "    q = np.hstack((accel_model.v, gyro_model.v, gyro_model.q, accel_model.q)) if gyro_model.n_output_noises == accel_model.n_output_noises else np.hstack((gyro_model.v, accel_model.v, gyro_model.q, accel_model.q))",
    "gyro/accel white-noise intensities swapped when dimensions allow")
mut('c11-Fig-Ha', 'C11', F, "    F[ins_block, accel_block] = Fia @ Ha", "    F[ins_block, accel_block] = Fig @ Ha", "accel states coupled through the gyro matrix")
mut('c11-gain', 'C11', K, "    K = cho_solve((L, True), HP, overwrite_b=True).T", "    K = 0.98 * cho_solve((L, True), HP, overwrite_b=True).T", "Kalman gain 2 % low (Joseph form stays consistent, estimate is sub-optimal)")
mut('c11-alt-sign', 'C11', F, "    trajectory.alt += error_nav.down", "    trajectory.alt -= error_nav.down", "altitude compensated with the wrong sign")
mut('c11-level-azimuth', 'C11', F, "    P_pva[error_model.DHEADING, error_model.DHEADING] = azimuth_sd ** 2", "    P_pva[error_model.DHEADING, error_model.DHEADING] = level_sd ** 2", "azimuth prior taken from level_sd")
mut('c11-time-delta', 'C11', F, "            pva_average, gyro_average, accel_average, time_delta,\n            error_model, gyro_model, accel_model)\n        x = Phi @ x",
    "            pva_average, gyro_average, accel_average, time_step,\n            error_model, gyro_model, accel_model)\n        x = Phi @ x", "propagation over time_step instead of the actual step")
mut('c11-walk-sd', 'C11', I, "                    q[n_noises] = bias_walk[axis]", "                    q[n_noises] = bias_walk[axis] ** 0.5", "bias-walk intensity wrong power")
mut('c11-sm-transposed', 'C11', I, "            H[output_axes, states] = readings[input_axes]", "            H[input_axes, states] = readings[output_axes]", "scale/misalignment columns transposed")
mut('c11-vanloan', 'C11', K, "    return H[:n, :n], H[:n, n:] @ H[:n, :n].T", "    return H[:n, :n], H[:n, n:] @ H[:n, :n]", "Van Loan product without the transpose")
# ---- C12
mut('c12-no-reset', 'C12', F, "    integrator = strapdown.Integrator(initial_pva, with_altitude)\n    gyro_model.reset_estimates()\n    accel_model.reset_estimates()",
    "    integrator = strapdown.Integrator(initial_pva, with_altitude)", "feedback filter does not reset estimates")
mut('c12-bias-sign', 'C12', I, "                self.bias[axis] += xi", "                self.bias[axis] -= xi", "bias estimate accumulated with the wrong sign")
mut('c12-correct-plus', 'C12', I, "(increments.values - self.bias * dt).T", "(increments.values + self.bias * dt).T", "increments corrected with +bias")
mut('c12-dr-sign', 'C12', E, "lla = transform.perturb_lla(pva[LLA_COLS], -x[self.DR])", "lla = transform.perturb_lla(pva[LLA_COLS], x[self.DR])", "position correction with the wrong sign")
mut('c12-gyro-gain', 'C12', F, "            gyro_model.update_estimates(x[gyro_block])", "            gyro_model.update_estimates(0.9 * x[gyro_block])", "gyro estimate fed back with gain 0.9")
mut('c12-correct-twice', 'C12', F, "        increments_batch = _correct_increments(\n            increments.iloc[increments_index : next_increment_index],\n            gyro_model, accel_model)",
    "        increments_batch = _correct_increments(_correct_increments(\n            increments.iloc[increments_index : next_increment_index],\n            gyro_model, accel_model), gyro_model, accel_model)", "increments corrected twice")
mut('c12-transparency', 'C12', F, "    increments_index = 0\n    while integrator.get_time() < end_time:", "    increments_index = 0\n    increments = increments * 1.0000000000000002\n    while integrator.get_time() < end_time:",
    "increments scaled by 1+eps before integration (breaks bit transparency only)")
mut('c12-ff-no-reset', 'C12', F, "        gyro_model = inertial_sensor.EstimationModel()\n    gyro_model.reset_estimates()\n\n    if accel_model is None:",
    "        gyro_model = inertial_sensor.EstimationModel()\n\n    if accel_model is None:", "EQUIVALENT mutant: the feedforward filter never reads the estimates, and the feedback filter resets them itself")
# ---- C13
mut('c13-revert-F5', 'C13', S, "        if not self.with_altitude:\n            pva = pva.copy()\n            pva.VD = 0.0\n        self.lla[i]", "        self.lla[i]", "revert fix F5")
mut('c13-kernel-vd', 'C13', N, "        else:\n            velocity_n[j + 1, 2] = 0.0", "        else:\n            velocity_n[j + 1, 2] = V3", "EQUIVALENT today: constructor and set_pva both zero VD, so the kernel only ever sees VD = 0 (one of three cooperating sites)")
mut('c13-ctor-vd', 'C13', S, "        if not with_altitude:\n            self.initial_pva.VD = 0.0\n", "", "constructor keeps VD")
mut('c13-correct-vd', 'C13', E, "        if not self.with_altitude:\n            velocity_n[2] = pva.VD\n", "", "EQUIVALENT for C13 since fix F5: set_pva zeroes the second-order VD that correct_pva would leave (it is C05 that speaks about correct_pva itself)")
mut('c13-position-rows', 'C13', ME, "        H = error_model.position_error_jacobian(pva, self.imu_to_antenna_b)\n        R = self.R\n        if not error_model.with_altitude:\n            z = z[:2]\n            H = H[:2]\n            R = R[:2, :2]",
    "        H = error_model.position_error_jacobian(pva, self.imu_to_antenna_b)\n        R = self.R\n        if not error_model.with_altitude and False:\n            z = z[:2]\n            H = H[:2]\n            R = R[:2, :2]", "Position keeps three rows in 2-D")
mut('c13-alt-correction', 'C13', E, "        if not self.with_altitude:\n            x = self._transform_3d_2d(pva.VN, pva.VE) @ x",
    "        if not self.with_altitude:\n            x = self._transform_3d_2d(pva.VN, pva.VE) @ x\n            x[2] = 1e-3 * x[0]", "2-D correction leaks north error into altitude")
# ---- C19 (see c19 catalogue)
mut('c19-perturb-lla-inplace', 'C19', 'pyins/transform.py', "    lla = np.atleast_2d(lla).copy()", "    lla = np.atleast_2d(lla)", "perturb_lla writes into the caller's array")
mut('c19-lla-diff-inplace', 'C19', 'pyins/transform.py', "    diff = lla1 - lla2\n    result = np.empty_like(diff)", "    diff = lla1\n    diff -= lla2\n    result = np.empty_like(diff)", "compute_lla_difference subtracts in place")
mut('c19-sim-inertial-copy', 'C19', 'pyins/sim.py', "    lla_inertial = lla.copy()", "    lla_inertial = lla", "generate_imu shifts the caller's longitude")
mut('c19-perturb-pva-copy', 'C19', 'pyins/sim.py', "    result = pva.copy()\n    result[LLA_COLS] = transform.perturb_lla(", "    result = pva\n    result[LLA_COLS] = transform.perturb_lla(", "perturb_pva modifies its argument")
mut('c19-integrator-copy', 'C19', S, "        self.initial_pva = pva.copy()", "        self.initial_pva = pva", "Integrator(…, with_altitude=False) zeroes the caller's VD")
mut('c19-ff-traj-copy', 'C19', F, "    trajectory = trajectory.copy()\n    trajectory.lat -=", "    trajectory.lat -=", "EQUIVALENT under pandas 3 copy-on-write: the table was already re-indexed with .loc (a new object)")
mut('c19-correct-inc-copy', 'C19', F, "    result = increments.copy()\n    result[THETA_COLS]", "    result = increments\n    result[THETA_COLS]", "EQUIVALENT under pandas 3 copy-on-write: assigning columns on an iloc slice copies first")
mut('c19-ned-jac-copy', 'C19', E, "velocity_n = pva[VEL_COLS].values.copy()", "velocity_n = pva[VEL_COLS].values", "Jacobian adds lever-arm velocity into the caller's pva")
mut('c19-global-rng', 'C19', 'pyins/sim.py', "    rng = check_random_state(rng)\n    error = error_sd * rng.randn(len(trajectory), 3)\n    lla = transform.perturb_lla(", "    rng = check_random_state(rng)\n    error = error_sd * np.random.randn(len(trajectory), 3)\n    lla = transform.perturb_lla(", "position noise drawn from the global numpy RNG")
mut('c19-column-order', 'C19', S, "columns=['dt', 'theta_x', 'theta_y', 'theta_z',\n                                 'dv_x', 'dv_y', 'dv_z'])", "columns=['dt', 'theta_x', 'theta_y', 'theta_z',\n                                 'dv_x', 'dv_y', 'dv_z'])[['theta_x', 'theta_y', 'theta_z', 'dv_x', 'dv_y', 'dv_z', 'dt']]", "increments columns reordered")
mut('c19-hidden-cache', 'C19', 'pyins/earth.py', "def principal_radii(lat, alt):", "_calls = [0]\n\n\ndef principal_radii(lat, alt):\n    _calls[0] += 1\n    if _calls[0] % 7 == 0:\n        alt = alt + 1e-9", "hidden module state changes every 7th call")
mut('c19-model-mutates-param', 'C19', I, "        param = np.asarray(param)\n        if param.ndim == 0:", "        param = np.asarray(param)\n        if param.ndim == 1:\n            param[param < 0] = 0\n        if param.ndim == 0:", "EstimationModel clips the caller's parameter array in place")


def run_one(m, tier='quick', runs=None):
    tmp = tempfile.mkdtemp(prefix='pyins_mut_', dir='/tmp')
    try:
        shutil.copytree(os.path.join(REPO, 'pyins'), os.path.join(tmp, 'pyins'),
                        ignore=shutil.ignore_patterns('__pycache__'))
        path = os.path.join(tmp, m['file'])
        src = open(path).read()
        if src.count(m['old']) != 1:
            return dict(status='PATCH-FAILED', detail=f"{src.count(m['old'])} matches")
        open(path, 'w').write(src.replace(m['old'], m['new']))
        env = dict(os.environ, VERIF_REPO=tmp, VERIF_SEED=os.environ.get('VERIF_SEED', '0'))
        cmd = [os.path.join(VERIF, 'check'), m['prop'], '--tier', tier, '--no-selftest',
               '--no-evidence']
        if runs or m.get('runs'):
            cmd += ['--runs', str(runs or m['runs'])]
        t0 = time.time()
        p = subprocess.run(cmd, env=env, capture_output=True, text=True, timeout=1500)
        wall = time.time() - t0
        first = ''
        for line in p.stdout.splitlines():
            if line.startswith('  run '):
                first = line.strip()[:260]
                break
        n_viol = ''
        for line in p.stdout.splitlines():
            if 'violating_runs=' in line:
                n_viol = line.split('violating_runs=')[1].split()[0] + '/' + \
                    line.split('runs=')[1].split()[0]
        status = {0: 'MISSED', 1: 'CAUGHT'}.get(p.returncode, f'HARNESS({p.returncode})')
        if p.returncode not in (0, 1):
            first = (p.stdout + p.stderr)[-300:]
        return dict(status=status, violating=n_viol, first=first, wall=round(wall, 1))
    finally:
        shutil.rmtree(tmp, ignore_errors=True)
        for f in os.listdir(os.path.join(VERIF, 'replays')):
            if f.endswith('.json'):
                os.remove(os.path.join(VERIF, 'replays', f))


def main():
    args = [a for a in sys.argv[1:] if not a.startswith('--')]
    runs = None
    for a in sys.argv[1:]:
        if a.startswith('--runs='):
            runs = int(a.split('=')[1])
    sel = [m for m in M if not args or m['prop'] in args or m['id'] in args]
    store = os.path.join(VERIF, 'tools', 'sensitivity.json')
    db = json.load(open(store)) if os.path.exists(store) else {}
    for m in sel:
        r = run_one(m, runs=runs)
        db[m['id']] = dict(prop=m['prop'], desc=m['desc'], file=m['file'], **r)
        print(f"{m['id']:30s} {r['status']:12s} {r.get('violating', '')} {r.get('wall', '')}s  "
              f"{r.get('first', r.get('detail', ''))[:150]}", flush=True)
        json.dump(db, open(store, 'w'), indent=1, sort_keys=True)
    with open(os.path.join(VERIF, 'SENSITIVITY.md'), 'w') as f:
        f.write("# Sensitivity: single-site mutants vs. the quick checks\n\n"
                "Produced by `tools/mutants.py` (scratch copy under /tmp, `VERIF_REPO`, quick "
                "tier, VERIF_SEED=0). `violating` = violating runs / runs.\n\n"
                "| mutant | property | file | what | result | violating | first report |\n"
                "|---|---|---|---|---|---|---|\n")
        for k in sorted(db, key=lambda k: (db[k]['prop'], k)):
            d = db[k]
            f.write(f"| {k} | {d['prop']} | {d['file']} | {d['desc']} | {d['status']} | "
                    f"{d.get('violating', '')} | {d.get('first', '').replace('|', '/')[:200]} |\n")


if __name__ == '__main__':
    main()
