#!/venv/bin/python
"""Large-sample determinism proof: for every check, run the same VERIF_SEED batch twice in
fresh interpreters - (a) 16 workers, PYTHONHASHSEED=0 and (b) 5 workers,
PYTHONHASHSEED=12345 - and compare the per-run digests (sha256 over every output table,
index, delivery log / operation result).  Writes /verif/DETERMINISM.md.

usage: tools/determinism.py [--runs N] [PROP ...]
"""
import json
import os
import subprocess
import sys
import tempfile
import time

VERIF = os.path.dirname(os.path.dirname(os.path.abspath(__file__)))
PROPS = ['C02', 'C09', 'C10', 'C11', 'C12', 'C13', 'C19']


def batch(prop, runs, workers, hashseed, seed):
    fd, path = tempfile.mkstemp(suffix='.json', dir='/tmp')
    os.close(fd)
    env = dict(os.environ, PYTHONHASHSEED=str(hashseed), VERIF_SEED=str(seed),
               VERIF_WORKERS=str(workers))
    t0 = time.time()
    p = subprocess.run([os.path.join(VERIF, 'check'), prop, '--tier', 'quick', '--runs',
                        str(runs), '--no-selftest', '--no-evidence', '--dump-digests', path],
                       env=env, capture_output=True, text=True, timeout=3000)
    d = json.load(open(path)) if os.path.getsize(path) else {}
    os.remove(path)
    return d, p.returncode, round(time.time() - t0, 1)


def main():
    runs = 400
    props = []
    for a in sys.argv[1:]:
        if a.startswith('--runs'):
            runs = int(a.split('=')[1])
        else:
            props.append(a)
    rows = []
    bad = False
    for prop in props or PROPS:
        for seed in (0, 31337):
            a, rc_a, wa = batch(prop, runs, 16, 0, seed)
            b, rc_b, wb = batch(prop, runs, 5, 12345, seed)
            same = sum(1 for k in a if b.get(k) == a[k])
            ok = (len(a) == len(b) == same and len(a) > 0 and rc_a == rc_b)
            bad |= not ok
            rows.append((prop, seed, len(a), len(b), same, rc_a, rc_b, wa, wb,
                         'identical' if ok else 'DIFFERENT'))
            print(rows[-1], flush=True)
    with open(os.path.join(VERIF, 'DETERMINISM.md'), 'w') as f:
        f.write("# Determinism proof (tools/determinism.py)\n\n"
                "Same `VERIF_SEED`, two fresh interpreters: (a) 16 workers, "
                "`PYTHONHASHSEED=0`; (b) 5 workers, `PYTHONHASHSEED=12345`. Per-run digests "
                "compared run by run.\n\n"
                "| check | VERIF_SEED | runs (a) | runs (b) | identical digests | exit (a) | "
                "exit (b) | wall a/b (s) | verdict |\n|---|---|---|---|---|---|---|---|---|\n")
        for r in rows:
            f.write(f"| {r[0]} | {r[1]} | {r[2]} | {r[3]} | {r[4]} | {r[5]} | {r[6]} | "
                    f"{r[7]}/{r[8]} | {r[9]} |\n")
    return 1 if bad else 0


if __name__ == '__main__':
    sys.exit(main())
